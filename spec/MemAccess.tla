------------------------------ MODULE MemAccess ------------------------------
(***************************************************************************)
(* The memory regions an instruction reads, writes and captures:           *)
(*   DefaultHandler::memory_accesses   (instruction/mod.rs)                *)
(*   Call::default_memory_accesses     (instruction/extern_call.rs)        *)
(*   Expression::memory_references     (program/memory.rs)                 *)
(*                                                                         *)
(* Three descriptions:                                                     *)
(*  1. `Reported(i, sigs)`: the table of the code, arm by arm, with its    *)
(*     helper patterns (like_move, binary, read_write, read_one, read_all, *)
(*     the dynamic LOAD/STORE arms, the CALL loop).                        *)
(*  2. For the classical instructions an *operational semantics* on a tiny *)
(*     memory (`Eff`): which cells are assigned which values, and the      *)
(*     control outcome.  From it, "consulted" and "assigned" regions are   *)
(*     derived by the textbook definition (`SemReads`, `SemWrites`): a     *)
(*     region is read iff changing one of its cells can change the effect, *)
(*     written iff one of its cells can be assigned.  No table involved.   *)
(*  3. For the instructions whose semantics lives outside classical memory *)
(*     (RF instructions, gates, measurement, CALL) the rule as property    *)
(*     C27 words it (`Declared`): every region referenced in one of the    *)
(*     instruction's expressions is read; MEASURE / CAPTURE / RAW-CAPTURE  *)
(*     targets are captured; for CALL the return slot and every region     *)
(*     passed to a mutable parameter are written, every passed region read.*)
(*                                                                         *)
(* Abstract syntax (k = kind tag):                                         *)
(*   memory reference  [name, index]                                       *)
(*   operand           [t |-> "int"] | [t |-> "real"] | [t |-> "mref", m]  *)
(*   expression        [t |-> "num"] | [t |-> "pi"] | [t |-> "var", v]     *)
(*                     | [t |-> "addr", m] | [t |-> "neg", e]              *)
(*                     | [t |-> "inf", op, l, r] | [t |-> "fn", f, e]      *)
(*   Move[dst,src] Arith[op,dst,src] Logic[op,dst,src] Unary[op,operand]   *)
(*   Compare[op,dst,lhs,rhs] Convert[dst,src] Exchange[left,right]         *)
(*   Load[dst,source,offset] Store[destination,offset,src]                 *)
(*   JumpWhen[target,cond] JumpUnless[target,cond] Jump Halt Wait Nop      *)
(*   Pragma Label Fence Reset SwapPhases Declare                           *)
(*   Gate[params] Measure[target : Opt] Pulse[wf] Capture[wf,mref]         *)
(*   RawCapture[duration,mref] Delay[duration] Set*/Shift*[e]              *)
(*   Call[name, args] with args [t |-> "id", s] | [t |-> "mref", m]        *)
(*                                | [t |-> "imm"]                          *)
(*   sigs: function  name -> [ret : BOOLEAN, params : Seq([mut, ty])]      *)
(***************************************************************************)
EXTENDS Abs, TLC

Acc(r, w, c) == [reads |-> r, writes |-> w, captures |-> c]
NoAcc == Acc({}, {}, {})
IsRef(o) == o.t = "mref"

\* Expression::memory_references, as the set of region names
RECURSIVE Addrs(_)
Addrs(e) == CASE e.t = "addr" -> {e.m.name}
              [] e.t \in {"neg", "pos", "fn"} -> Addrs(e.e)
              [] e.t = "inf" -> Addrs(e.l) \cup Addrs(e.r)
              [] OTHER -> {}
AddrsAll(es) == UNION {Addrs(es[n]) : n \in DOMAIN es}

----------------------------------------------------------------------------
\* 1. The table of the code.

OperandAccess(o) == IF IsRef(o) THEN {o.m.name} ELSE {}          \* access_operand
LikeMove(dst, srcAcc) == Acc(srcAcc, {dst.name}, {})             \* like_move
Binary(dst, src) == Acc({dst.name} \cup OperandAccess(src), {dst.name}, {})   \* binary
ReadWrite(places) == Acc(places, places, {})                     \* read_write
ReadAll(names) == Acc(names, {}, {})                             \* read_one / read_all

\* Call::default_memory_accesses: zip the arguments (after the return slot) with the parameters
ArgRegion(a) == CASE a.t = "id" -> {a.s} [] a.t = "mref" -> {a.m.name} [] OTHER -> {}
CallReported(i, sigs) ==
    LET sg   == sigs[i.name]
        off  == IF sg.ret /\ i.args # <<>> THEN 1 ELSE 0
        ret  == IF off = 1 THEN ArgRegion(i.args[1]) ELSE {}
        n    == Min({Len(i.args) - off, Len(sg.params)})
        rd   == UNION {ArgRegion(i.args[k + off]) : k \in 1..n}
        wr   == UNION {IF sg.params[k].mut THEN ArgRegion(i.args[k + off]) ELSE {} : k \in 1..n}
    IN Acc(ret \cup rd, ret \cup wr, {})

CallKnown(i, sigs) == i.name \in DOMAIN sigs

Reported(i, sigs) ==
    CASE i.k = "Convert"  -> LikeMove(i.dst, {i.src.name})
      [] i.k = "Move"     -> LikeMove(i.dst, OperandAccess(i.src))
      [] i.k = "Logic"    -> Binary(i.dst, i.src)
      [] i.k = "Arith"    -> Binary(i.dst, i.src)
      [] i.k = "Unary"    -> ReadWrite({i.operand.name})
      [] i.k = "Exchange" -> ReadWrite({i.left.name, i.right.name})
      [] i.k \in {"JumpWhen", "JumpUnless"} -> ReadAll({i.cond.name})
      [] i.k = "Compare"  -> Acc({i.lhs.name} \cup OperandAccess(i.rhs), {i.dst.name}, {})
      [] i.k = "Delay"    -> ReadAll(Addrs(i.duration))
      [] i.k \in {"SetPhase", "SetScale", "ShiftPhase", "SetFrequency", "ShiftFrequency"} -> ReadAll(Addrs(i.e))
      [] i.k = "Pulse"    -> ReadAll(AddrsAll(i.wf))
      [] i.k = "Gate"     -> ReadAll(AddrsAll(i.params))
      [] i.k = "Capture"  -> Acc(AddrsAll(i.wf), {}, {i.mref.name})
      [] i.k = "Measure"  -> Acc({}, {}, IF IsSome(i.target) THEN {i.target.some.name} ELSE {})
      [] i.k = "RawCapture" -> Acc(Addrs(i.duration), {}, {i.mref.name})
      [] i.k = "Call"     -> CallReported(i, sigs)
      [] i.k = "Load"     -> Acc({i.source, i.offset.name}, {i.dst.name}, {})
      [] i.k = "Store"    -> Acc({i.offset.name} \cup OperandAccess(i.src), {i.destination}, {})
      [] OTHER -> NoAcc    \* Declare Fence Halt Wait Jump Label Nop Pragma Reset SwapPhases ...

----------------------------------------------------------------------------
\* 2. Operational semantics of the classical instructions on a tiny memory.
\* A memory gives every region SemLen cells holding 2-bit values.  Arithmetic is modulo 4, logic is bitwise,
\* comparisons are on the integers, immediates are the constant 1.  (Fidelity to the hardware's number
\* formats is not the point: the point is that each operator really depends on each operand, so that
\* "consulted" can be *derived* instead of tabulated.  With 1-bit values `IOR x 1` and `GT x 1` would be
\* constant and the derivation would wrongly conclude that x is not read.)

\* The tiny memory of an instruction consists of the cells it can touch: the cells of its memory-reference
\* operands and, for LOAD / STORE, the whole (2-cell) dynamically indexed region.
SemLen == 2
SemMod == 4
SemVals == 0..(SemMod - 1)
Memories(Cs) == [Cs -> SemVals]

ClassicalKinds == {"Move", "Arith", "Logic", "Unary", "Compare", "Convert", "Exchange", "Load", "Store",
                   "JumpWhen", "JumpUnless"}
CellOf(m) == <<m.name, m.index % SemLen>>
OperandCells(o) == IF IsRef(o) THEN {CellOf(o.m)} ELSE {}
WholeRegion(x) == {x} \X (0..(SemLen - 1))
\* the cells an instruction mentions (pure syntax; this is the tiny memory's domain)
MentionedCells(i) ==
    CASE i.k \in {"Move", "Arith", "Logic"} -> {CellOf(i.dst)} \cup OperandCells(i.src)
      [] i.k = "Convert"  -> {CellOf(i.dst), CellOf(i.src)}
      [] i.k = "Unary"    -> {CellOf(i.operand)}
      [] i.k = "Compare"  -> {CellOf(i.dst), CellOf(i.lhs)} \cup OperandCells(i.rhs)
      [] i.k = "Exchange" -> {CellOf(i.left), CellOf(i.right)}
      [] i.k = "Load"     -> {CellOf(i.dst), CellOf(i.offset)} \cup WholeRegion(i.source)
      [] i.k = "Store"    -> WholeRegion(i.destination) \cup {CellOf(i.offset)} \cup OperandCells(i.src)
      [] i.k \in {"JumpWhen", "JumpUnless"} -> {CellOf(i.cond)}
      [] OTHER -> {}
Val(mem, o) == IF IsRef(o) THEN mem[CellOf(o.m)] ELSE 1          \* immediates are the constant 1
Bit(x, k) == (x \div (IF k = 0 THEN 1 ELSE 2)) % 2
Bitwise(f(_, _), x, y) == f(Bit(x, 0), Bit(y, 0)) + 2 * f(Bit(x, 1), Bit(y, 1))
BAnd(p, q) == IF p = 1 /\ q = 1 THEN 1 ELSE 0
BOr(p, q)  == IF p = 1 \/ q = 1 THEN 1 ELSE 0
BXor(p, q) == (p + q) % 2
ArithOp(op, x, y) == CASE op = "MUL" -> (x * y) % SemMod
                       [] op = "SUB" -> (x + SemMod - y) % SemMod
                       [] OTHER -> (x + y) % SemMod              \* ADD; DIV is not total, modelled as ADD
LogicOp(op, x, y) == CASE op = "AND" -> Bitwise(BAnd, x, y)
                       [] op = "IOR" -> Bitwise(BOr, x, y)
                       [] OTHER -> Bitwise(BXor, x, y)           \* XOR
CmpOp(op, x, y) == LET b == CASE op = "EQ" -> x = y [] op = "GT" -> x > y [] op = "GE" -> x >= y
                                 [] op = "LT" -> x < y [] OTHER -> x <= y
                   IN IF b THEN 1 ELSE 0
\* the effect of instruction i in memory mem: the assigned cells with their new values, and the outcome
\* (which way a conditional jump goes)
Eff(i, mem) ==
    CASE i.k = "Move"    -> [asg |-> {<<CellOf(i.dst), Val(mem, i.src)>>}, out |-> 0]
      [] i.k = "Convert" -> [asg |-> {<<CellOf(i.dst), mem[CellOf(i.src)]>>}, out |-> 0]
      [] i.k = "Arith"   -> [asg |-> {<<CellOf(i.dst), ArithOp(i.op, mem[CellOf(i.dst)], Val(mem, i.src))>>}, out |-> 0]
      [] i.k = "Logic"   -> [asg |-> {<<CellOf(i.dst), LogicOp(i.op, mem[CellOf(i.dst)], Val(mem, i.src))>>}, out |-> 0]
      [] i.k = "Unary"   -> [asg |-> {<<CellOf(i.operand), IF i.op = "NOT" THEN (SemMod - 1) - mem[CellOf(i.operand)]
                                                             ELSE (SemMod - mem[CellOf(i.operand)]) % SemMod>>},
                             out |-> 0]
      [] i.k = "Compare" -> [asg |-> {<<CellOf(i.dst), CmpOp(i.op, mem[CellOf(i.lhs)], Val(mem, i.rhs))>>}, out |-> 0]
      [] i.k = "Exchange" -> [asg |-> {<<CellOf(i.left), mem[CellOf(i.right)]>>, <<CellOf(i.right), mem[CellOf(i.left)]>>},
                              out |-> 0]
      [] i.k = "Load"    -> [asg |-> {<<CellOf(i.dst), mem[<<i.source, mem[CellOf(i.offset)] % SemLen>>]>>}, out |-> 0]
      [] i.k = "Store"   -> [asg |-> {<<<<i.destination, mem[CellOf(i.offset)] % SemLen>>, Val(mem, i.src)>>}, out |-> 0]
      [] i.k = "JumpWhen"   -> [asg |-> {}, out |-> IF mem[CellOf(i.cond)] # 0 THEN 1 ELSE 0]
      [] i.k = "JumpUnless" -> [asg |-> {}, out |-> IF mem[CellOf(i.cond)] = 0 THEN 1 ELSE 0]

\* a cell is consulted iff changing it alone can change the effect
Consulted(i) == LET Cs == MentionedCells(i) IN
                {c \in Cs : \E mem \in Memories(Cs) : \E v \in SemVals : Eff(i, mem) # Eff(i, [mem EXCEPT ![c] = v])}
SemReads(i)  == {c[1] : c \in Consulted(i)}
SemWrites(i) == {a[1][1] : a \in UNION {Eff(i, mem).asg : mem \in Memories(MentionedCells(i))}}
\* Instructions that combine a cell with itself (SUB a[0] a[0], XOR a[0] a[0], EQ d a[0] a[0]) compute a
\* constant: the derivation would (rightly) say the cell is not consulted, while "consults" in the property is
\* meant operationally.  They are excluded from the judgement; generators do not produce them.
SelfCombining(i) ==
    \/ i.k \in {"Arith", "Logic"} /\ IsRef(i.src) /\ CellOf(i.src.m) = CellOf(i.dst)
    \/ i.k = "Compare" /\ IsRef(i.rhs) /\ CellOf(i.rhs.m) = CellOf(i.lhs)
SemanticsAgrees(i) ==
    (i.k \in ClassicalKinds /\ ~SelfCombining(i)) =>
        LET rep == Reported(i, <<>>) IN
        /\ rep.reads = SemReads(i) /\ rep.writes = SemWrites(i) /\ rep.captures = {}

----------------------------------------------------------------------------
\* 3. The rule for instructions whose semantics is outside classical memory.

\* every expression an instruction carries
ExprsOf(i) ==
    CASE i.k \in {"Delay", "RawCapture"} -> <<i.duration>>
      [] i.k \in {"SetPhase", "SetScale", "ShiftPhase", "SetFrequency", "ShiftFrequency"} -> <<i.e>>
      [] i.k \in {"Pulse", "Capture"} -> i.wf
      [] i.k = "Gate" -> i.params
      [] OTHER -> <<>>
CaptureTarget(i) ==
    CASE i.k \in {"Capture", "RawCapture"} -> {i.mref.name}
      [] i.k = "Measure" -> IF IsSome(i.target) THEN {i.target.some.name} ELSE {}
      [] OTHER -> {}
\* CALL, for calls whose argument count matches the signature (the only ones that resolve)
CallWellFormed(i, sigs) == CallKnown(i, sigs) /\
    Len(i.args) = Len(sigs[i.name].params) + (IF sigs[i.name].ret THEN 1 ELSE 0)
CallDeclared(i, sigs) ==
    LET sg == sigs[i.name]
        off == IF sg.ret THEN 1 ELSE 0
        passed == UNION {ArgRegion(i.args[k]) : k \in DOMAIN i.args}
        slot == IF sg.ret THEN ArgRegion(i.args[1]) ELSE {}
        mutated == UNION {ArgRegion(i.args[k + off]) : k \in {k \in DOMAIN sg.params : sg.params[k].mut}}
    IN Acc(passed, slot \cup mutated, {})
Declared(i, sigs) ==
    IF i.k = "Call" THEN CallDeclared(i, sigs)
    ELSE Acc(AddrsAll(ExprsOf(i)), {}, CaptureTarget(i))
NonClassicalAgrees(i, sigs) ==
    (i.k \notin ClassicalKinds /\ (i.k = "Call" => CallWellFormed(i, sigs))) =>
        Reported(i, sigs) = Declared(i, sigs)

\* what property C27 demands of a reported access triple (used by the model run and by the trace spec)
Demanded(i, sigs) ==
    IF i.k \in ClassicalKinds THEN Acc(SemReads(i), SemWrites(i), {}) ELSE Declared(i, sigs)
=============================================================================
