------------------------------ MODULE QuilPrint ------------------------------
(***************************************************************************)
(* The serializer of quil-rs (`Quil::write`) and the rules that make its   *)
(* output read back as the same program.                                   *)
(*                                                                         *)
(*   values   : abstract instructions / expressions (tagged records, the   *)
(*              JSON encoding of harness/src/props/c02.rs)                 *)
(*   printer  : one arm per `impl Quil for ...`, producing *pieces*        *)
(*              (lexeme + token class, with the white space as pieces of   *)
(*              its own), so that the text is the concatenation of the     *)
(*              lexemes and the token stream is what the lexer must find   *)
(*   re-lexing: LexStable -- adjacent pieces printed without white space   *)
(*              are split by the lexer exactly at the piece boundary       *)
(*              (lexer/mod.rs: identifiers swallow `-x`, `2e`, `0x`, four  *)
(*              spaces are an indentation token ...)                       *)
(*   re-reading: the operand readers of parser/{command,common,            *)
(*              expression,gate}.rs for the token shapes the printer       *)
(*              emits, with the greedy loops (qubit*, string*, memref?,    *)
(*              the Pratt loop, DELAY's re-read rule) transcribed as they  *)
(*              are, because that is where a printed form can be taken     *)
(*              apart differently from how it was put together             *)
(*                                                                         *)
(* Properties (C02, C04, C06) are stated on (value, pieces, re-read value) *)
(* without reference to how the printer works: see the section at the end. *)
(* The grammar as a total parser of arbitrary token sequences is the       *)
(* business of QuilGrammar (C01); this module only re-reads printed forms. *)
(***************************************************************************)
EXTENDS Abs, TLC

\* Deviation switches: the code as built where it knowingly (or newly found) breaks a property.
\* All FALSE in the shipped configurations; spec/mc/findings/*.cfg switch one on.
CONSTANTS CallImmediatePlain,     \* parse_call_argument reads an immediate with parse_immediate_value only:
                                  \* no sign, no two-part literal (DESIGN §7 finding 11, known finding)
          MagTable,               \* the magnitudes of numeric literals the re-reader knows (set by the MC module)
          JudgeAmbiguousDelay     \* judge DELAY values without frame names whose printed duration can also be read
                                  \* as further qubits followed by a shorter duration (see DelayAmbiguous); the
                                  \* statement of C04 cannot hold for them, the shipped configurations exclude them

---------------------------------------------------------------------------
(* Pieces and text *)

Pc(c, s)  == <<[c |-> c, s |-> s]>>
SP        == Pc("ws", " ")
NL        == Pc("nl", "\n")
IND       == Pc("ind", "    ")
TAB       == Pc("ind", "\t")
Pun(s)    == Pc("pun", s)
Op(s)     == Pc("op", s)
Kw(s)     == Pc("kw", s)
IntP(s, n) == <<[c |-> "int", s |-> s, n |-> n]>>
FltP(s)   == Pc("flt", s)
Nat2P(n)  == IntP(ToString(n), n)
VarP(v)   == <<[c |-> "var", s |-> "%" \o v, v |-> v]>>
TgtP(v)   == <<[c |-> "tgt", s |-> "@" \o v, v |-> v]>>

RECURSIVE JoinS(_)
JoinS(ss) == IF ss = <<>> THEN "" ELSE Head(ss) \o JoinS(Tail(ss))
Text(ps)  == JoinS([n \in DOMAIN ps |-> ps[n].s])
NotWs(p)  == p.c # "ws"
Toks(ps)  == SelectSeq(ps, NotWs)

\* Reserved lexemes (lexer/mod.rs Command, DataType, Modifier; token.rs KeywordToken).  Case-sensitive.
Commands == {"ADD", "AND", "ASHR", "CALL", "CAPTURE", "CONVERT", "DECLARE", "DEFCAL", "DEFCIRCUIT", "DEFFRAME",
             "DEFGATE", "DEFWAVEFORM", "DELAY", "DIV", "EQ", "EXCHANGE", "FENCE", "GE", "GT", "HALT", "INCLUDE",
             "IOR", "JUMP", "JUMP-UNLESS", "JUMP-WHEN", "LABEL", "LE", "LOAD", "LT", "MEASURE", "MOVE", "MUL",
             "NEG", "NOP", "NOT", "PRAGMA", "PULSE", "RAW-CAPTURE", "RESET", "SET-FREQUENCY", "SET-PHASE",
             "SET-SCALE", "SHIFT-FREQUENCY", "SHIFT-PHASE", "SHL", "SHR", "STORE", "SUB", "SWAP-PHASES", "WAIT",
             "XOR"}
DataTypes == {"BIT", "OCTET", "REAL", "INTEGER"}
Modifiers == {"CONTROLLED", "DAGGER", "FORKED"}
KeywordTokens == {"AS", "MATRIX", "mut", "NONBLOCKING", "OFFSET", "PAULI-SUM", "PERMUTATION", "SEQUENCE", "SHARING"}
Reserved == Commands \cup DataTypes \cup Modifiers \cup KeywordTokens

\* keyword_or_identifier: a name is printed as it is; what the lexer makes of it depends on the spelling
Name(s) == Pc(IF s \in Reserved THEN "kw" ELSE "id", s)

\* quoted strings: values are sequences of one-character strings (see QuotedString.tla for the automaton)
EscCh(c) == IF c = "\"" THEN <<"\\", "\"">> ELSE IF c = "\\" THEN <<"\\", "\\">> ELSE <<c>>
RECURSIVE EscChars(_)
EscChars(cs) == IF cs = <<>> THEN <<>> ELSE EscCh(Head(cs)) \o EscChars(Tail(cs))
Quoted(cs) == "\"" \o JoinS(EscChars(cs)) \o "\""
StrP(cs)   == <<[c |-> "str", s |-> Quoted(cs), v |-> cs]>>

---------------------------------------------------------------------------
(* Re-lexing.  Character classes of the first / last character of a piece, by token class. *)

EndsWord(p)   == p.c \in {"id", "kw", "var", "tgt"}           \* last char alphanumeric or '_'
StartsWord(p) == p.c \in {"id", "kw"}                         \* first char alphabetic or '_'
StartsDigit(p) == p.c \in {"int", "flt"}
IsNum(p)      == p.c \in {"int", "flt"}

\* may b directly follow a (no white space) and still be lexed as the two tokens a, b ?
Splits(a, b) ==
  /\ ~(EndsWord(a) /\ (StartsWord(b) \/ StartsDigit(b)))      \* `ab`, `a1` are one identifier
  /\ ~(IsNum(a) /\ IsNum(b))                                  \* `12`
  /\ ~(IsNum(a) /\ StartsWord(b) /\ b.s # "i")                \* `2e..`, `0x..`, `2_`: only the imaginary unit is printed glued
  /\ ~(a.c = "nl" /\ b.c = "ws")                              \* a line never starts with a lone blank
\* `a-1`, `%x-y`, `@l-2` are single identifiers: a word, a dash and a word/number must not be glued
SplitsTriple(a, b, c) == ~(EndsWord(a) /\ b.c = "op" /\ b.s = "-" /\ (StartsWord(c) \/ StartsDigit(c)))

LexStable(ps) ==
  /\ \A n \in 1..(Len(ps) - 1) : Splits(ps[n], ps[n + 1])
  /\ \A n \in 1..(Len(ps) - 2) : SplitsTriple(ps[n], ps[n + 1], ps[n + 2])
  /\ \A n \in 1..(Len(ps) - 1) : ~(ps[n].c = "ws" /\ ps[n + 1].c = "ws")   \* four blanks are an indentation token
  /\ \A n \in DOMAIN ps : ps[n].c = "ind" => (n > 1 /\ ps[n - 1].c \in {"nl", "ind"})

---------------------------------------------------------------------------
(* Expressions: values *)

\* A magnitude: how it prints as a real part (`r`, trailing `.0` trimmed), as an imaginary part (`i`, always a
\* float), whether it is zero, and a stand-in value in GF(1009) (only used by Val).
Mag(r, i, z, q) == [r |-> r, i |-> i, z |-> z, q |-> q]
M0  == Mag("0", "0.0", TRUE, 0)
Part(neg, m) == [neg |-> neg, m |-> m]
Num(re, im)  == [t |-> "num", re |-> re, im |-> im]
Real(neg, m) == Num(Part(neg, m), Part(FALSE, M0))
Imag(neg, m) == Num(Part(FALSE, M0), Part(neg, m))
Pi           == [t |-> "pi"]
EVar(v)      == [t |-> "var", v |-> v]
MRef(n, i)   == [name |-> n, index |-> i]
Addr(m)      == [t |-> "addr", m |-> m]
Neg(e)       == [t |-> "neg", e |-> e]
Pos(e)       == [t |-> "pos", e |-> e]
Inf(op, l, r) == [t |-> "inf", op |-> op, l |-> l, r |-> r]
Fn(f, e)     == [t |-> "fn", f |-> f, e |-> e]

IsTwoPart(n)  == ~n.re.m.z /\ ~n.im.m.z
NegPart(p)    == p.neg /\ ~p.m.z
NeedsGroup(n) == IsTwoPart(n) \/ NegPart(n.re) \/ NegPart(n.im)    \* under a prefix operator

(* Expressions: printer (expression/mod.rs:660-780) *)
NumPieces(m, asImag) ==
  \* a real part whose value is integral (and below the exponent break) prints as an integer token: then the
  \* imaginary spelling of the same magnitude is that lexeme followed by ".0"
  IF asImag THEN FltP(m.i) ELSE IF m.i = m.r \o ".0" THEN IntP(m.r, m.q) ELSE FltP(m.r)

\* format_complex
ShowNum(n) ==
  LET sgn(p) == IF NegPart(p) THEN Op("-") ELSE <<>>
      ipart  == sgn(n.im) \o NumPieces(n.im.m, TRUE) \o Pc("id", "i") IN
  IF n.re.m.z /\ n.im.m.z THEN IntP("0", 0)
  ELSE IF n.im.m.z THEN sgn(n.re) \o NumPieces(n.re.m, FALSE)
  ELSE IF n.re.m.z THEN ipart
  ELSE sgn(n.re) \o NumPieces(n.re.m, FALSE) \o (IF ~n.im.neg THEN Op("+") ELSE <<>>) \o ipart

ShowMRef(m) == Name(m.name) \o Pun("[") \o Nat2P(m.index) \o Pun("]")
OpPieces(op) == IF op = "-" THEN SP \o Op("-") \o SP ELSE Op(op)

RECURSIVE ShowE(_), InnerE(_)
Paren(ps) == Pun("(") \o ps \o Pun(")")
UnderPrefix(e) ==
  IF e.t \in {"neg", "pos"} THEN Paren(ShowE(e))
  ELSE IF e.t = "num" /\ NeedsGroup(e) THEN Paren(ShowE(e))
  ELSE InnerE(e)
ShowE(e) ==
  CASE e.t = "num"  -> ShowNum(e)
    [] e.t = "pi"   -> Pc("id", "pi")
    [] e.t = "var"  -> VarP(e.v)
    [] e.t = "addr" -> ShowMRef(e.m)
    [] e.t = "fn"   -> Pc("id", e.f) \o Paren(ShowE(e.e))
    [] e.t = "inf"  -> InnerE(e.l) \o OpPieces(e.op) \o InnerE(e.r)
    [] e.t = "neg"  -> Op("-") \o UnderPrefix(e.e)
    [] e.t = "pos"  -> UnderPrefix(e.e)
InnerE(e) ==
  IF e.t = "inf" THEN Paren(InnerE(e.l) \o OpPieces(e.op) \o InnerE(e.r))
  ELSE IF e.t = "num" /\ IsTwoPart(e) THEN Paren(ShowE(e))
  ELSE ShowE(e)

(* Expressions: what the parser makes of the printed form (the value-preserving normal form) *)
RECURSIVE CanonE(_)
CanonNum(n) ==
  LET re == Real(FALSE, n.re.m)   im == Imag(FALSE, n.im.m)
      sre == IF NegPart(n.re) THEN Neg(re) ELSE re IN
  IF n.re.m.z /\ n.im.m.z THEN Real(FALSE, M0)
  ELSE IF n.im.m.z THEN sre
  ELSE IF n.re.m.z THEN (IF NegPart(n.im) THEN Neg(im) ELSE im)
  ELSE Inf(IF n.im.neg THEN "-" ELSE "+", sre, im)
CanonE(e) ==
  CASE e.t = "num"  -> CanonNum(e)
    [] e.t \in {"pi", "var", "addr"} -> e
    [] e.t = "fn"   -> Fn(e.f, CanonE(e.e))
    [] e.t = "inf"  -> Inf(e.op, CanonE(e.l), CanonE(e.r))
    [] e.t = "neg"  -> Neg(CanonE(e.e))
    [] e.t = "pos"  -> CanonE(e.e)

\* trees the parser can produce: literals are non-negative with one part, no prefix plus
RECURSIVE ParseNormalE(_)
ParseNormalE(e) ==
  CASE e.t = "num"  -> ~IsTwoPart(e) /\ ~NegPart(e.re) /\ ~NegPart(e.im)
    [] e.t \in {"pi", "var", "addr"} -> TRUE
    [] e.t = "fn"   -> ParseNormalE(e.e)
    [] e.t = "inf"  -> ParseNormalE(e.l) /\ ParseNormalE(e.r)
    [] e.t = "neg"  -> ParseNormalE(e.e)
    [] e.t = "pos"  -> FALSE

(* Expressions: value in GF(1009), to check that CanonE preserves the value (C04 compares by value) *)
PP == 1009
RECURSIVE PowMod(_, _)
PowMod(b, n) == IF n = 0 THEN 1 ELSE LET h == PowMod(b, n \div 2) IN
                IF n % 2 = 0 THEN (h * h) % PP ELSE (((h * h) % PP) * b) % PP
InvMod(a) == PowMod(a, PP - 2)
UnitI == 316         \* a fixed element standing for the imaginary unit
EnvVal(name) == CASE name = "x" -> 123 [] name = "y" -> 45 [] OTHER -> 777
SignedQ(p) == IF NegPart(p) THEN (PP - p.m.q) % PP ELSE p.m.q
RECURSIVE Val(_)
Val(e) ==
  CASE e.t = "num"  -> (SignedQ(e.re) + SignedQ(e.im) * UnitI) % PP
    [] e.t = "pi"   -> 432
    [] e.t = "var"  -> EnvVal(e.v)
    [] e.t = "addr" -> (EnvVal(e.m.name) * 3 + e.m.index + 11) % PP
    [] e.t = "fn"   -> (Val(e.e) * 17 + 5) % PP
    [] e.t = "neg"  -> (PP - Val(e.e)) % PP
    [] e.t = "pos"  -> Val(e.e)
    [] e.t = "inf"  -> LET a == Val(e.l)  b == Val(e.r) IN
         CASE e.op = "+" -> (a + b) % PP [] e.op = "-" -> (a + PP - b) % PP [] e.op = "*" -> (a * b) % PP
           [] e.op = "/" -> (a * InvMod(b)) % PP [] e.op = "^" -> (a * a * 31 + b * 7 + a * b) % PP

---------------------------------------------------------------------------
(* Re-reading: token cursor and sequencing.

   Results are records [ok, v, p] (value and next position).  Results are passed on through operator
   parameters (Bind / Then / OrElse with a LAMBDA) rather than LET: semantically the same, but TLC's coverage
   instrumentation (-coverage 1, which bin/check uses for its vacuity guard) re-expands a LET definition at
   every use, which is exponential for a reader of this depth. *)

EOFTok == [c |-> "eof", s |-> ""]
Tok(ts, p) == IF p >= 1 /\ p <= Len(ts) THEN ts[p] ELSE EOFTok
IsPun(k, s) == k.c = "pun" /\ k.s = s
IsOp(k, s)  == k.c = "op" /\ k.s = s
IsKw(k, s)  == k.c = "kw" /\ k.s = s
Fail == [ok |-> FALSE, p |-> 0]
Ok(v, p) == [ok |-> TRUE, v |-> v, p |-> p]
Bind(x, K(_)) == K(x)
Then(r, K(_)) == IF r.ok THEN K(r) ELSE Fail                 \* sequence: r must succeed
OrElse(r, alt, K(_)) == IF r.ok THEN K(r) ELSE alt           \* optional / many0: fall back to alt
Cons(x, r) == Ok(<<x>> \o r.v, r.p)
Expect(ts, p, isIt(_), K(_)) == IF isIt(Tok(ts, p)) THEN K(p + 1) ELSE Fail

\* The magnitudes the model knows (lexeme -> magnitude): MagTable, set by the MC module.
\* (a lexeme outside the table stands for itself: recorded real programs hold arbitrary literals)
KnownLex(s) == \E m \in MagTable : m.r = s \/ m.i = s
MagOfLex(s) == IF KnownLex(s) THEN CHOOSE m \in MagTable : m.r = s \/ m.i = s ELSE Mag(s, s, FALSE, 0)

\* parse_expression_identifier lower-cases the identifier before comparing with the reserved words
ExprReservedTab ==
  [x \in {"pi", "PI", "Pi", "pI"} |-> "pi"] @@ [x \in {"i", "I"} |-> "i"] @@
  [x \in {"sin", "SIN", "Sin"} |-> "sin"] @@ [x \in {"cos", "COS", "Cos"} |-> "cos"] @@
  [x \in {"cis", "CIS", "Cis"} |-> "cis"] @@ [x \in {"exp", "EXP", "Exp"} |-> "exp"] @@
  [x \in {"sqrt", "SQRT", "Sqrt"} |-> "sqrt"]
ExprReserved(s) == s \in DOMAIN ExprReservedTab
ExprFns == {"cis", "cos", "exp", "sin", "sqrt"}

\* parse_memory_reference_with_brackets / parse_memory_reference
ReadMRefB(ts, p) ==
  IF Tok(ts, p).c = "id" /\ IsPun(Tok(ts, p + 1), "[") /\ Tok(ts, p + 2).c = "int" /\ IsPun(Tok(ts, p + 3), "]")
  THEN Ok(MRef(Tok(ts, p).s, Tok(ts, p + 2).n), p + 4) ELSE Fail
ReadMRef(ts, p) ==
  IF Tok(ts, p).c # "id" THEN Fail
  ELSE OrElse(ReadMRefB(ts, p), Ok(MRef(Tok(ts, p).s, 0), p + 1), LAMBDA b : b)

(* The Pratt parser of parser/expression.rs:73-237 *)
Prec(k) == IF k.c # "op" THEN 0
           ELSE CASE k.s \in {"+", "-"} -> 1 [] k.s \in {"*", "/"} -> 2 [] k.s = "^" -> 3

RECURSIVE ReadE(_, _, _), LoopE(_, _, _, _)
\* parse_immediate_value: a number token, optionally followed by the identifier `i`
ReadImm(ts, p) ==
  IF ~IsNum(Tok(ts, p)) THEN Fail
  ELSE IF Tok(ts, p + 1).c = "id" /\ Tok(ts, p + 1).s = "i"
       THEN Ok(Imag(FALSE, MagOfLex(Tok(ts, p).s)), p + 2)
       ELSE Ok(Real(FALSE, MagOfLex(Tok(ts, p).s)), p + 1)
ReadGroup(ts, p) ==       \* after "(": an expression, then ")"
  Then(ReadE(ts, p, 0), LAMBDA r : IF IsPun(Tok(ts, r.p), ")") THEN Ok(r.v, r.p + 1) ELSE Fail)
ReadIdentAtom(ts, p, k) ==   \* parse_expression_identifier
  OrElse(ReadMRefB(ts, p),
         IF ExprReserved(k.s)
         THEN Bind(ExprReservedTab[k.s], LAMBDA w :
                IF w = "pi" THEN Ok(Pi, p + 1)
                ELSE IF w = "i" THEN Ok(Imag(FALSE, MagOfLex("1")), p + 1)
                ELSE IF ~IsPun(Tok(ts, p + 1), "(") THEN Fail
                ELSE Then(ReadGroup(ts, p + 2), LAMBDA g : Ok(Fn(w, g.v), g.p)))
         ELSE Ok(Addr(MRef(k.s, 0)), p + 1),
         LAMBDA b : Ok(Addr(b.v), b.p))
ReadAtom(ts, p) ==
  OrElse(ReadImm(ts, p),
         Bind(Tok(ts, p), LAMBDA k :
           CASE k.c = "var" -> Ok(EVar(k.v), p + 1)
             [] k.c = "id" -> ReadIdentAtom(ts, p, k)
             [] IsPun(k, "(") -> ReadGroup(ts, p + 1)
             [] OTHER -> Fail),
         LAMBDA imm : imm)
ReadE(ts, p, prec) ==
  IF IsOp(Tok(ts, p), "-")
  THEN Then(ReadAtom(ts, p + 1), LAMBDA a : LoopE(ts, Neg(a.v), a.p, prec))
  ELSE Then(ReadAtom(ts, p), LAMBDA a : LoopE(ts, a.v, a.p, prec))
LoopE(ts, left, p, prec) ==
  IF Prec(Tok(ts, p)) > prec
  THEN Then(ReadE(ts, p + 1, Prec(Tok(ts, p))), LAMBDA r : LoopE(ts, Inf(Tok(ts, p).s, left, r.v), r.p, prec))
  ELSE Ok(left, p)
ReadExpr(ts, p) == ReadE(ts, p, 0)
ReadWholeExpr(ts) == Then(ReadExpr(ts, 1), LAMBDA r : IF r.p = Len(ts) + 1 THEN r ELSE Fail)

---------------------------------------------------------------------------
(* Instructions: values.  Records [k |-> kind, ...fields]; the fields are those of the Rust structs
   (see the table in harness/src/props/c02.rs).  Strings that are printed between quotes are sequences of
   characters; every other name is an atomic string. *)

Frame(name, qubits) == [name |-> name, qubits |-> qubits]
WfInv(base, ext, params) == [base |-> base, ext |-> ext, params |-> params]     \* ext: Opt(string) after '/'
KV(k, v) == [key |-> k, val |-> v]
OInt(neg, lex)  == [t |-> "int", neg |-> neg, lex |-> lex]
OReal(neg, lex) == [t |-> "real", neg |-> neg, lex |-> lex]
OMRef(m)        == [t |-> "mref", m |-> m]
TFixed(s) == [t |-> "fixed", s |-> s]
TPh(id)   == [t |-> "ph", id |-> id]

RECURSIVE JoinP(_, _)
JoinP(items, sep) == IF items = <<>> THEN <<>>
                     ELSE IF Len(items) = 1 THEN items[1] ELSE items[1] \o sep \o JoinP(Tail(items), sep)
Each(f(_), xs) == FlattenSeq([n \in DOMAIN xs |-> f(xs[n])])
CommaSp == Pun(",") \o SP

ShowQ(q) == CASE q.t = "fixed" -> Nat2P(q.n) [] q.t = "var" -> Name(q.s) [] q.t = "ph" -> Pc("dbg", "<qubit placeholder>")
ShowTarget(x) == IF x.t = "fixed" THEN TgtP(x.s) ELSE Pc("dbg", "<label placeholder>")
SpQ(q) == SP \o ShowQ(q)
QSp(q) == ShowQ(q) \o SP
ShowFrame(f) == Each(QSp, f.qubits) \o StrP(f.name)
ShowKV(kv) == Name(kv.key) \o Pun(":") \o SP \o ShowE(kv.val)
ShowWfName(w) == Name(w.base) \o (IF IsSome(w.ext) THEN Op("/") \o Name(w.ext.some) ELSE <<>>)
ShowWf(w) == ShowWfName(w) \o
             (IF w.params = <<>> THEN <<>> ELSE Paren(JoinP([n \in DOMAIN w.params |-> ShowKV(w.params[n])], CommaSp)))
ShowOperand(o) == CASE o.t = "int"  -> (IF o.neg THEN Op("-") ELSE <<>>) \o IntP(o.lex, 0)
                    [] o.t = "real" -> (IF o.neg THEN Op("-") ELSE <<>>) \o FltP(o.lex)
                    [] o.t = "mref" -> ShowMRef(o.m)
ParamsE(es) == IF es = <<>> THEN <<>> ELSE Paren(JoinP([n \in DOMAIN es |-> ShowE(es[n])], CommaSp))
ParamsV(vs) == IF vs = <<>> THEN <<>> ELSE Paren(JoinP([n \in DOMAIN vs |-> VarP(vs[n])], CommaSp))
ModSp(m) == Kw(m) \o SP
SpName(s) == SP \o Name(s)
ShowGate(g) == Each(ModSp, g.mods) \o Name(g.name) \o ParamsE(g.params) \o Each(SpQ, g.qubits)
ShowOffset(o) == SP \o Nat2P(o.offset) \o SP \o Kw(o.ty)
ShowPragmaArg(a) == SP \o (IF a.t = "id" THEN Name(a.s) ELSE IntP(a.lex, 0))
ShowCallArg(a) == SP \o (CASE a.t = "id" -> Name(a.s) [] a.t = "mref" -> ShowMRef(a.m) [] a.t = "imm" -> ShowNum(a.v))
ShowAttr(a) == NL \o IND \o Name(a.key) \o Pun(":") \o SP \o (IF a.val.t = "str" THEN StrP(a.val.s) ELSE ShowE(a.val.e))
FrameExprCmds == {"SET-FREQUENCY", "SET-PHASE", "SET-SCALE", "SHIFT-FREQUENCY", "SHIFT-PHASE"}

\* timing.rs:33-70: without a frame name nothing separates the qubits from the duration, so a compound duration
\* (infix, function call, literal with an imaginary part, anything under a prefix plus -- which prints nothing)
\* is grouped in parentheses
GroupDelayDuration(i) == i.frame_names = <<>> /\ (\/ i.duration.t \in {"inf", "fn", "pos"}
                                                  \/ (i.duration.t = "num" /\ ~i.duration.im.m.z))
RECURSIVE PrintI(_)
LineI(i)    == NL \o IND \o PrintI(i)
TabLineI(i) == TAB \o PrintI(i)
IndLineNl(i) == IND \o PrintI(i) \o NL
PauliTerm(tm) == IND \o Name(tm.word) \o Paren(ShowE(tm.e)) \o Each(SpName, tm.args) \o NL
MatrixRow(r)  == IND \o JoinP([n \in DOMAIN r |-> ShowE(r[n])], CommaSp) \o NL
SeqGate(g)    == IND \o ShowGate(g) \o NL
ShowSpec(sp) ==
  CASE sp.t = "matrix" -> Each(MatrixRow, sp.rows)
    [] sp.t = "perm"   -> IND \o JoinP([n \in DOMAIN sp.p |-> Nat2P(sp.p[n])], CommaSp) \o NL
    [] sp.t = "pauli"  -> Each(PauliTerm, sp.terms)
    [] sp.t = "seq"    -> Each(SeqGate, sp.gates)
SpecQubitNames(sp) == CASE sp.t = "pauli" -> sp.args [] sp.t = "seq" -> sp.qubits [] OTHER -> <<>>
SpecKw(sp) == CASE sp.t = "matrix" -> "MATRIX" [] sp.t = "perm" -> "PERMUTATION" [] sp.t = "pauli" -> "PAULI-SUM"
                [] sp.t = "seq" -> "SEQUENCE"
Blocking(i) == IF i.blocking THEN <<>> ELSE Kw("NONBLOCKING") \o SP

PrintI(i) ==
  CASE i.k = "Gate" -> ShowGate(i)
    [] i.k = "DefCal" -> Kw("DEFCAL") \o SP \o ShowGate(i) \o Pun(":") \o Each(LineI, i.body)
    [] i.k = "DefCalMeasure" ->
         Kw("DEFCAL") \o SP \o Kw("MEASURE") \o (IF IsSome(i.name) THEN Pun("!") \o Name(i.name.some) ELSE <<>>)
           \o SP \o ShowQ(i.qubit) \o (IF IsSome(i.target) THEN SP \o Name(i.target.some) ELSE <<>>) \o Pun(":") \o NL
           \o JoinP([n \in DOMAIN i.body |-> TabLineI(i.body[n])], NL) \o NL
    [] i.k = "DefCircuit" ->
         Kw("DEFCIRCUIT") \o SP \o Name(i.name) \o ParamsV(i.params) \o Each(SpName, i.qubit_variables) \o Pun(":") \o NL
           \o Each(IndLineNl, i.body)
    [] i.k = "DefGate" ->
         Kw("DEFGATE") \o SP \o Name(i.name) \o ParamsV(i.params) \o Each(SpName, SpecQubitNames(i.spec))
           \o SP \o Kw("AS") \o SP \o Kw(SpecKw(i.spec)) \o Pun(":") \o NL \o ShowSpec(i.spec)
    [] i.k = "DefWaveform" ->
         Kw("DEFWAVEFORM") \o SP \o ShowWfName(i) \o ParamsV(i.params) \o Pun(":") \o NL \o IND
           \o JoinP([n \in DOMAIN i.matrix |-> ShowE(i.matrix[n])], CommaSp)
    [] i.k = "DefFrame" -> Kw("DEFFRAME") \o SP \o ShowFrame(i.id) \o Pun(":") \o Each(ShowAttr, i.attrs)
    [] i.k = "Declare" ->
         Kw("DECLARE") \o SP \o Name(i.name) \o SP \o Kw(i.size.ty) \o Pun("[") \o Nat2P(i.size.len) \o Pun("]")
           \o (IF IsSome(i.sharing)
               THEN SP \o Kw("SHARING") \o SP \o Name(i.sharing.some.name)
                      \o (IF i.sharing.some.offsets = <<>> THEN <<>>
                          ELSE SP \o Kw("OFFSET") \o Each(ShowOffset, i.sharing.some.offsets))
               ELSE <<>>)
    [] i.k = "Measure" ->
         Kw("MEASURE") \o (IF IsSome(i.name) THEN Pun("!") \o Name(i.name.some) ELSE <<>>) \o SP \o ShowQ(i.qubit)
           \o (IF IsSome(i.target) THEN SP \o ShowMRef(i.target.some) ELSE <<>>)
    [] i.k = "Reset" -> Kw("RESET") \o (IF IsSome(i.qubit) THEN SP \o ShowQ(i.qubit.some) ELSE <<>>)
    [] i.k = "Delay" -> Kw("DELAY") \o Each(SpQ, i.qubits)
                          \o FlattenSeq([n \in DOMAIN i.frame_names |-> SP \o StrP(i.frame_names[n])])
                          \o SP \o (IF GroupDelayDuration(i) THEN Paren(ShowE(i.duration)) ELSE ShowE(i.duration))
    [] i.k = "Fence" -> Kw("FENCE") \o Each(SpQ, i.qubits)
    [] i.k = "Pulse" -> Blocking(i) \o Kw("PULSE") \o SP \o ShowFrame(i.frame) \o SP \o ShowWf(i.waveform)
    [] i.k = "Capture" -> Blocking(i) \o Kw("CAPTURE") \o SP \o ShowFrame(i.frame) \o SP \o ShowWf(i.waveform)
                            \o SP \o ShowMRef(i.mref)
    [] i.k = "RawCapture" -> Blocking(i) \o Kw("RAW-CAPTURE") \o SP \o ShowFrame(i.frame) \o SP \o ShowE(i.duration)
                               \o SP \o ShowMRef(i.mref)
    [] i.k = "FrameExpr" -> Kw(i.cmd) \o SP \o ShowFrame(i.frame) \o SP \o ShowE(i.e)
    [] i.k = "SwapPhases" -> Kw("SWAP-PHASES") \o SP \o ShowFrame(i.frame_1) \o SP \o ShowFrame(i.frame_2)
    [] i.k \in {"Arith", "Logic"} -> Kw(i.op) \o SP \o ShowMRef(i.dst) \o SP \o ShowOperand(i.src)
    [] i.k = "Move" -> Kw("MOVE") \o SP \o ShowMRef(i.dst) \o SP \o ShowOperand(i.src)
    [] i.k = "Unary" -> Kw(i.op) \o SP \o ShowMRef(i.operand)
    [] i.k = "Compare" -> Kw(i.op) \o SP \o ShowMRef(i.dst) \o SP \o ShowMRef(i.lhs) \o SP \o ShowOperand(i.rhs)
    [] i.k = "Convert" -> Kw("CONVERT") \o SP \o ShowMRef(i.dst) \o SP \o ShowMRef(i.src)
    [] i.k = "Exchange" -> Kw("EXCHANGE") \o SP \o ShowMRef(i.left) \o SP \o ShowMRef(i.right)
    [] i.k = "Load" -> Kw("LOAD") \o SP \o ShowMRef(i.dst) \o SP \o Name(i.source) \o SP \o ShowMRef(i.offset)
    [] i.k = "Store" -> Kw("STORE") \o SP \o Name(i.destination) \o SP \o ShowMRef(i.offset) \o SP \o ShowOperand(i.src)
    [] i.k = "Label" -> Kw("LABEL") \o SP \o ShowTarget(i.target)
    [] i.k = "Jump" -> Kw("JUMP") \o SP \o ShowTarget(i.target)
    [] i.k \in {"JumpWhen", "JumpUnless"} ->
         Kw(IF i.k = "JumpWhen" THEN "JUMP-WHEN" ELSE "JUMP-UNLESS") \o SP \o ShowTarget(i.target) \o SP \o ShowMRef(i.cond)
    [] i.k = "Halt" -> Kw("HALT") [] i.k = "Nop" -> Kw("NOP") [] i.k = "Wait" -> Kw("WAIT")
    [] i.k = "Pragma" -> Kw("PRAGMA") \o SP \o Name(i.name) \o Each(ShowPragmaArg, i.args)
                           \o (IF IsSome(i.data) THEN SP \o StrP(i.data.some) ELSE <<>>)
    [] i.k = "Include" -> Kw("INCLUDE") \o SP \o StrP(i.filename)
    [] i.k = "Call" -> Kw("CALL") \o SP \o Name(i.name) \o Each(ShowCallArg, i.args)

\* impl Quil for Program: every instruction followed by a newline
ProgLine(i) == PrintI(i) \o NL
PrintProgram(is) == Each(ProgLine, is)

\* placeholders make to_quil fail (qubit.rs:40-57, control_flow.rs:73-90); to_quil_or_debug writes a debug form
HasDbg(ps) == \E n \in DOMAIN ps : ps[n].c = "dbg"
ToQuilFails(i) == HasDbg(PrintI(i))

---------------------------------------------------------------------------
(* Instructions: constructors (shared by the generators and the re-reader, so that both build the same shapes) *)

Gate(name, params, qubits, mods) == [k |-> "Gate", name |-> name, params |-> params, qubits |-> qubits, mods |-> mods]
DefCal(name, params, qubits, mods, body) ==
  [k |-> "DefCal", name |-> name, params |-> params, qubits |-> qubits, mods |-> mods, body |-> body]
DefCalMeasure(name, qubit, target, body) ==
  [k |-> "DefCalMeasure", name |-> name, qubit |-> qubit, target |-> target, body |-> body]
DefCircuit(name, params, qvars, body) ==
  [k |-> "DefCircuit", name |-> name, params |-> params, qubit_variables |-> qvars, body |-> body]
DefGate(name, params, spec) == [k |-> "DefGate", name |-> name, params |-> params, spec |-> spec]
SpecMatrix(rows) == [t |-> "matrix", rows |-> rows]
SpecPerm(p)      == [t |-> "perm", p |-> p]
SpecPauli(args, terms) == [t |-> "pauli", args |-> args, terms |-> terms]
PTerm(word, e, args)   == [word |-> word, e |-> e, args |-> args]
SpecSeq(qubits, gates) == [t |-> "seq", qubits |-> qubits, gates |-> gates]
DefWaveform(base, ext, params, matrix) ==
  [k |-> "DefWaveform", base |-> base, ext |-> ext, params |-> params, matrix |-> matrix]
DefFrame(id, attrs) == [k |-> "DefFrame", id |-> id, attrs |-> attrs]
AttrStr(key, s)  == [key |-> key, val |-> [t |-> "str", s |-> s]]
AttrExpr(key, e) == [key |-> key, val |-> [t |-> "expr", e |-> e]]
Declare(name, ty, len, sharing) == [k |-> "Declare", name |-> name, size |-> [ty |-> ty, len |-> len], sharing |-> sharing]
Sharing(name, offsets) == [name |-> name, offsets |-> offsets]
Offset(n, ty) == [offset |-> n, ty |-> ty]
Measure(name, qubit, target) == [k |-> "Measure", name |-> name, qubit |-> qubit, target |-> target]
Reset(q) == [k |-> "Reset", qubit |-> q]
Delay(duration, frame_names, qubits) ==
  [k |-> "Delay", duration |-> duration, frame_names |-> frame_names, qubits |-> qubits]
Fence(qubits) == [k |-> "Fence", qubits |-> qubits]
Pulse(blocking, frame, wf) == [k |-> "Pulse", blocking |-> blocking, frame |-> frame, waveform |-> wf]
Capture(blocking, frame, wf, m) == [k |-> "Capture", blocking |-> blocking, frame |-> frame, waveform |-> wf, mref |-> m]
RawCapture(blocking, frame, d, m) == [k |-> "RawCapture", blocking |-> blocking, frame |-> frame, duration |-> d, mref |-> m]
FrameExpr(cmd, frame, e) == [k |-> "FrameExpr", cmd |-> cmd, frame |-> frame, e |-> e]
SwapPhases(f1, f2) == [k |-> "SwapPhases", frame_1 |-> f1, frame_2 |-> f2]
Arith(op, dst, src) == [k |-> "Arith", op |-> op, dst |-> dst, src |-> src]
Logic(op, dst, src) == [k |-> "Logic", op |-> op, dst |-> dst, src |-> src]
Move(dst, src) == [k |-> "Move", dst |-> dst, src |-> src]
Unary(op, m) == [k |-> "Unary", op |-> op, operand |-> m]
Compare(op, dst, lhs, rhs) == [k |-> "Compare", op |-> op, dst |-> dst, lhs |-> lhs, rhs |-> rhs]
Convert(dst, src) == [k |-> "Convert", dst |-> dst, src |-> src]
Exchange(l, r) == [k |-> "Exchange", left |-> l, right |-> r]
Load(dst, source, offset) == [k |-> "Load", dst |-> dst, source |-> source, offset |-> offset]
Store(destination, offset, src) == [k |-> "Store", destination |-> destination, offset |-> offset, src |-> src]
Label(x) == [k |-> "Label", target |-> x]
Jump(x)  == [k |-> "Jump", target |-> x]
JumpWhen(x, c)   == [k |-> "JumpWhen", target |-> x, cond |-> c]
JumpUnless(x, c) == [k |-> "JumpUnless", target |-> x, cond |-> c]
Halt == [k |-> "Halt"]   Nop == [k |-> "Nop"]   Wait == [k |-> "Wait"]
Pragma(name, args, data) == [k |-> "Pragma", name |-> name, args |-> args, data |-> data]
PArgId(s) == [t |-> "id", s |-> s]
PArgInt(lex) == [t |-> "int", lex |-> lex]
Include(filename) == [k |-> "Include", filename |-> filename]
Call(name, args) == [k |-> "Call", name |-> name, args |-> args]
CArgId(s) == [t |-> "id", s |-> s]
CArgMRef(m) == [t |-> "mref", m |-> m]
CArgImm(v) == [t |-> "imm", v |-> v]

ArithOps == {"ADD", "SUB", "MUL", "DIV"}
LogicOps == {"AND", "IOR", "XOR", "SHL", "SHR", "ASHR"}
UnaryOps == {"NEG", "NOT"}
CompareOps == {"EQ", "GE", "GT", "LE", "LT"}

---------------------------------------------------------------------------
(* Re-reading: operand readers (parser/common.rs) *)

ReadQ(ts, p) == Bind(Tok(ts, p), LAMBDA k :
  CASE k.c = "int" -> Ok(Fixed(k.n), p + 1) [] k.c = "var" -> Ok(QVar(k.v), p + 1)
    [] k.c = "id" -> Ok(QVar(k.s), p + 1) [] OTHER -> Fail)
RECURSIVE ReadQs(_, _)         \* many0(parse_qubit)
ReadQs(ts, p) == OrElse(ReadQ(ts, p), Ok(<<>>, p), LAMBDA q : Cons(q.v, ReadQs(ts, q.p)))
RECURSIVE ReadStrs(_, _)       \* many0(token!(String))
ReadStrs(ts, p) == IF Tok(ts, p).c # "str" THEN Ok(<<>>, p) ELSE Cons(Tok(ts, p).v, ReadStrs(ts, p + 1))
RECURSIVE ReadMods(_, _)
ReadMods(ts, p) == IF ~(Tok(ts, p).c = "kw" /\ Tok(ts, p).s \in Modifiers) THEN Ok(<<>>, p)
                   ELSE Cons(Tok(ts, p).s, ReadMods(ts, p + 1))
RECURSIVE ReadIds(_, _)        \* many0(token!(Identifier))
ReadIds(ts, p) == IF Tok(ts, p).c # "id" THEN Ok(<<>>, p) ELSE Cons(Tok(ts, p).s, ReadIds(ts, p + 1))
RECURSIVE ReadQNames(_, _)     \* many0(parse_variable_qubit)
ReadQNames(ts, p) ==
  IF Tok(ts, p).c \notin {"id", "var"} THEN Ok(<<>>, p)
  ELSE Cons(IF Tok(ts, p).c = "id" THEN Tok(ts, p).s ELSE Tok(ts, p).v, ReadQNames(ts, p + 1))
RECURSIVE ReadExprList(_, _)   \* separated_list1(Comma, parse_expression)
ReadExprList(ts, p) ==
  Then(ReadExpr(ts, p), LAMBDA e :
    IF IsPun(Tok(ts, e.p), ",")
    THEN OrElse(ReadExprList(ts, e.p + 1), Ok(<<e.v>>, e.p), LAMBDA r : Cons(e.v, r))
    ELSE Ok(<<e.v>>, e.p))
RECURSIVE ReadVarList(_, _)
ReadVarList(ts, p) ==
  IF Tok(ts, p).c # "var" THEN Fail
  ELSE IF IsPun(Tok(ts, p + 1), ",")
       THEN OrElse(ReadVarList(ts, p + 2), Ok(<<Tok(ts, p).v>>, p + 1), LAMBDA r : Cons(Tok(ts, p).v, r))
       ELSE Ok(<<Tok(ts, p).v>>, p + 1)
RECURSIVE ReadIntList(_, _)
ReadIntList(ts, p) ==
  IF Tok(ts, p).c # "int" THEN Fail
  ELSE IF IsPun(Tok(ts, p + 1), ",")
       THEN OrElse(ReadIntList(ts, p + 2), Ok(<<Tok(ts, p).n>>, p + 1), LAMBDA r : Cons(Tok(ts, p).n, r))
       ELSE Ok(<<Tok(ts, p).n>>, p + 1)
\* opt(delimited("(", separated_list0(",", X), ")"))
CloseParen(ts, r) == IF r.ok /\ IsPun(Tok(ts, r.p), ")") THEN Ok(r.v, r.p + 1) ELSE Fail
ReadParamsE(ts, p) ==
  IF ~IsPun(Tok(ts, p), "(") THEN Ok(<<>>, p)
  ELSE IF IsPun(Tok(ts, p + 1), ")") THEN Ok(<<>>, p + 2)
  ELSE CloseParen(ts, ReadExprList(ts, p + 1))
ReadParamsV(ts, p) ==
  IF ~IsPun(Tok(ts, p), "(") THEN Ok(<<>>, p)
  ELSE IF IsPun(Tok(ts, p + 1), ")") THEN Ok(<<>>, p + 2)
  ELSE CloseParen(ts, ReadVarList(ts, p + 1))

\* parse_arithmetic_operand / parse_comparison_operand (withReal) and parse_binary_logic_operand
ReadOperandAt(ts, p, q, neg, withReal) ==     \* q: position of the literal, after an optional minus at p
  IF withReal /\ Tok(ts, q).c = "flt" THEN Ok(OReal(neg, Tok(ts, q).s), q + 1)
  ELSE IF Tok(ts, q).c = "int" THEN Ok(OInt(neg, Tok(ts, q).s), q + 1)
  ELSE IF neg THEN Fail
  ELSE Then(ReadMRef(ts, p), LAMBDA m : Ok(OMRef(m.v), m.p))
ReadOperand(ts, p, withReal) ==
  IF IsOp(Tok(ts, p), "-") THEN ReadOperandAt(ts, p, p + 1, TRUE, withReal) ELSE ReadOperandAt(ts, p, p, FALSE, withReal)

ReadFrame(ts, p) == Bind(ReadQs(ts, p), LAMBDA qs :
  IF qs.v = <<>> \/ Tok(ts, qs.p).c # "str" THEN Fail ELSE Ok(Frame(Tok(ts, qs.p).v, qs.v), qs.p + 1))

RECURSIVE ReadNamedArgs(_, _)  \* separated_list0(Comma, parse_named_argument), at least one here
ReadNamedArgs(ts, p) ==
  IF ~(Tok(ts, p).c = "id" /\ IsPun(Tok(ts, p + 1), ":")) THEN Fail
  ELSE Then(ReadExpr(ts, p + 2), LAMBDA e :
         IF IsPun(Tok(ts, e.p), ",")
         THEN OrElse(ReadNamedArgs(ts, e.p + 1), Ok(<<KV(Tok(ts, p).s, e.v)>>, e.p), LAMBDA r : Cons(KV(Tok(ts, p).s, e.v), r))
         ELSE Ok(<<KV(Tok(ts, p).s, e.v)>>, e.p))
ReadWfName(ts, p) ==
  IF Tok(ts, p).c # "id" THEN Fail
  ELSE IF IsOp(Tok(ts, p + 1), "/") /\ Tok(ts, p + 2).c = "id"
       THEN Ok([base |-> Tok(ts, p).s, ext |-> Some(Tok(ts, p + 2).s)], p + 3)
       ELSE Ok([base |-> Tok(ts, p).s, ext |-> None], p + 1)
ReadWf(ts, p) ==
  Then(ReadWfName(ts, p), LAMBDA n :
    IF ~IsPun(Tok(ts, n.p), "(") THEN Ok(WfInv(n.v.base, n.v.ext, <<>>), n.p)
    ELSE IF IsPun(Tok(ts, n.p + 1), ")") THEN Ok(WfInv(n.v.base, n.v.ext, <<>>), n.p + 2)
    ELSE Then(CloseParen(ts, ReadNamedArgs(ts, n.p + 1)), LAMBDA a : Ok(WfInv(n.v.base, n.v.ext, a.v), a.p)))

\* mods name (params) qubits -- parse_gate, parse_defcal_gate head, parse_sequence_element
ReadGateHead(ts, p) ==
  Bind(ReadMods(ts, p), LAMBDA m :
    IF Tok(ts, m.p).c # "id" THEN Fail
    ELSE Then(ReadParamsE(ts, m.p + 1), LAMBDA ps :
           Bind(ReadQs(ts, ps.p), LAMBDA qs : Ok(Gate(Tok(ts, m.p).s, ps.v, qs.v, m.v), qs.p))))

RECURSIVE ReadOffsets(_, _)
ReadOffsets(ts, p) ==
  IF ~(Tok(ts, p).c = "int" /\ Tok(ts, p + 1).c = "kw" /\ Tok(ts, p + 1).s \in DataTypes) THEN Ok(<<>>, p)
  ELSE Cons(Offset(Tok(ts, p).n, Tok(ts, p + 1).s), ReadOffsets(ts, p + 2))
RECURSIVE ReadPragmaArgs(_, _)
ReadPragmaArgs(ts, p) ==
  IF Tok(ts, p).c \notin {"id", "int"} THEN Ok(<<>>, p)
  ELSE Cons(IF Tok(ts, p).c = "id" THEN PArgId(Tok(ts, p).s) ELSE PArgInt(Tok(ts, p).s), ReadPragmaArgs(ts, p + 1))

\* parse_call_argument: memory reference with brackets | identifier | immediate.
\* ReadSignedImm is the reader a sign-aware CALL grammar would need (not what the code does).
NegNum(v) == Num(Part(~v.re.m.z, v.re.m), Part(~v.im.m.z, v.im.m))
ReadSecondPart(ts, first, p) ==    \* `+ 2.0i` / `- 2.0i` after a real part
  IF first.im.m.z /\ Tok(ts, p).c = "op" /\ Tok(ts, p).s \in {"+", "-"}
  THEN OrElse(ReadImm(ts, p + 1), Ok(first, p),
              LAMBDA b : IF b.v.re.m.z /\ ~b.v.im.m.z THEN Ok(Num(first.re, Part(Tok(ts, p).s = "-", b.v.im.m)), b.p) ELSE Ok(first, p))
  ELSE Ok(first, p)
ReadSignedImm(ts, p) ==
  IF IsOp(Tok(ts, p), "-") THEN Then(ReadImm(ts, p + 1), LAMBDA a : ReadSecondPart(ts, NegNum(a.v), a.p))
  ELSE Then(ReadImm(ts, p), LAMBDA a : ReadSecondPart(ts, a.v, a.p))
ReadCallArg(ts, p) ==
  OrElse(ReadMRefB(ts, p),
         IF Tok(ts, p).c = "id" THEN Ok(CArgId(Tok(ts, p).s), p + 1)
         ELSE Then(IF CallImmediatePlain THEN ReadImm(ts, p) ELSE ReadSignedImm(ts, p), LAMBDA i : Ok(CArgImm(i.v), i.p)),
         LAMBDA b : Ok(CArgMRef(b.v), b.p))
RECURSIVE ReadCallArgs(_, _)
ReadCallArgs(ts, p) == OrElse(ReadCallArg(ts, p), Ok(<<>>, p), LAMBDA a : Cons(a.v, ReadCallArgs(ts, a.p)))

RECURSIVE ReadAttrs(_, _)      \* many1(parse_frame_attribute): stops softly
ReadAttrValue(ts, p, key) ==
  IF Tok(ts, p).c = "str" THEN Ok(AttrStr(key, Tok(ts, p).v), p + 1)
  ELSE Then(ReadExpr(ts, p), LAMBDA e : Ok(AttrExpr(key, e.v), e.p))
ReadAttrs(ts, p) ==
  IF ~(Tok(ts, p).c = "nl" /\ Tok(ts, p + 1).c = "ind" /\ Tok(ts, p + 2).c = "id" /\ IsPun(Tok(ts, p + 3), ":")) THEN Ok(<<>>, p)
  ELSE OrElse(ReadAttrValue(ts, p + 4, Tok(ts, p + 2).s), Ok(<<>>, p), LAMBDA v : Cons(v.v, ReadAttrs(ts, v.p)))

---------------------------------------------------------------------------
(* Re-reading: instructions (parser/instruction.rs dispatch, parser/command.rs, parser/gate.rs) *)

RECURSIVE ReadI(_, _), ReadBlock(_, _), ReadRows(_, _), ReadTerms(_, _), ReadSeqGates(_, _)

\* many1(NewLine Indentation instruction): an element that starts (NL IND) must be an instruction (a command
\* error is a hard failure), otherwise the block ends
ReadBlock(ts, p) ==
  IF ~(Tok(ts, p).c = "nl" /\ Tok(ts, p + 1).c = "ind") THEN Ok(<<>>, p)
  ELSE Then(ReadI(ts, p + 2), LAMBDA i : Then(ReadBlock(ts, i.p), LAMBDA r : Cons(i.v, r)))
NonEmpty(r) == IF r.ok /\ r.v # <<>> THEN r ELSE Fail
\* separated_list1(NL, IND row): after an element, a new line followed by a further element continues the list
MoreAfterNl(ts, x, more) == IF more.ok THEN Cons(x.v, more) ELSE Ok(<<x.v>>, x.p)
ReadRows(ts, p) ==
  IF Tok(ts, p).c # "ind" THEN Fail
  ELSE Bind(OrElse(ReadExprList(ts, p + 1), Ok(<<>>, p + 1), LAMBDA r : r), LAMBDA row :     \* separated_list0 inside a row
         IF Tok(ts, row.p).c = "nl" THEN MoreAfterNl(ts, row, ReadRows(ts, row.p + 1)) ELSE Ok(<<row.v>>, row.p))
ReadTerm(ts, p) ==
  IF ~(Tok(ts, p).c = "ind" /\ Tok(ts, p + 1).c = "id" /\ IsPun(Tok(ts, p + 2), "(")) THEN Fail
  ELSE Then(ReadGroup(ts, p + 3), LAMBDA g :
         Then(NonEmpty(ReadIds(ts, g.p)), LAMBDA a : Ok(PTerm(Tok(ts, p + 1).s, g.v, a.v), a.p)))
ReadTerms(ts, p) ==
  Then(ReadTerm(ts, p), LAMBDA x :
    IF Tok(ts, x.p).c = "nl" THEN MoreAfterNl(ts, x, ReadTerms(ts, x.p + 1)) ELSE Ok(<<x.v>>, x.p))
ReadSeqGates(ts, p) ==
  IF Tok(ts, p).c # "ind" THEN Fail
  ELSE Then(ReadGateHead(ts, p + 1), LAMBDA g :
         IF Tok(ts, g.p).c = "nl" THEN MoreAfterNl(ts, g, ReadSeqGates(ts, g.p + 1)) ELSE Ok(<<g.v>>, g.p))

\* parse_delay (command.rs:374-406): qubits greedily, frame names, then the duration; when there is no frame
\* name and the duration does not parse, the last "qubit" is re-read as the start of the duration.
ReadDelayTail(ts, qs, fs, d) ==
  IF d.ok THEN Ok(Delay(d.v, fs.v, qs.v), d.p)
  ELSE IF fs.v = <<>> /\ qs.v # <<>>
       THEN Then(ReadExpr(ts, qs.p - 1), LAMBDA d2 : Ok(Delay(d2.v, <<>>, SubSeq(qs.v, 1, Len(qs.v) - 1)), d2.p))
       ELSE Fail
ReadDelay(ts, p) ==
  Bind(ReadQs(ts, p), LAMBDA qs : Bind(ReadStrs(ts, qs.p), LAMBDA fs : ReadDelayTail(ts, qs, fs, ReadExpr(ts, fs.p))))

\* Without frame names nothing separates the qubits from the duration, and a printed form is ambiguous when the
\* duration starts with tokens that can be qubits and what follows them is an expression of its own:
\* `DELAY 0 2 - 1` is (qubits 0; duration 2 - 1) and (qubits 0 2; duration -1); `DELAY 0 sin(1)`, `DELAY q %x - 1`
\* likewise; parse_delay returns the reading with more qubits.  Since /repo commit bf4c513 the writer groups compound
\* durations (GroupDelayDuration; since 57c1d21 also those under a prefix plus), and no value of the generators'
\* alphabets is ambiguous any more: DelayAmbiguous stays as the declarative statement of what the writer must avoid,
\* and the invariant NoAmbiguousDelay of the MC module demands that it is empty.
QubitLike(k) == k.c \in {"int", "var", "id"}
AmbiguousDuration(d) ==      \* d: the tokens of the printed duration
  \E n \in 1..(Len(d) - 1) : (\A j \in 1..n : QubitLike(d[j])) /\ ReadWholeExpr(SubSeq(d, n + 1, Len(d))).ok
DelayDurationPieces(i) == IF GroupDelayDuration(i) THEN Paren(ShowE(i.duration)) ELSE ShowE(i.duration)
DelayAmbiguous(i) == i.k = "Delay" /\ i.frame_names = <<>> /\ AmbiguousDuration(Toks(DelayDurationPieces(i)))

ReadDefGateSpec(ts, name, ps, as, ty, q) ==     \* q: position after ":" NL
  CASE ty = "MATRIX" -> Then(ReadRows(ts, q), LAMBDA r : Ok(DefGate(name, ps, SpecMatrix(r.v)), r.p))
    [] ty = "PERMUTATION" -> IF Tok(ts, q).c # "ind" THEN Fail
                             ELSE Then(ReadIntList(ts, q + 1), LAMBDA r : Ok(DefGate(name, ps, SpecPerm(r.v)), r.p))
    [] ty = "PAULI-SUM" -> Then(ReadTerms(ts, q), LAMBDA r : Ok(DefGate(name, ps, SpecPauli(as, r.v)), r.p))
    [] ty = "SEQUENCE" -> Then(ReadSeqGates(ts, q), LAMBDA r : Ok(DefGate(name, ps, SpecSeq(as, r.v)), r.p))
    [] OTHER -> Fail
ReadDefGateType(ts, name, ps, as, ty, q) ==      \* q: position of ":"
  IF ~(IsPun(Tok(ts, q), ":") /\ Tok(ts, q + 1).c = "nl") THEN Fail ELSE ReadDefGateSpec(ts, name, ps, as, ty, q + 2)
ReadDefGate(ts, p) ==
  IF Tok(ts, p).c # "id" THEN Fail
  ELSE Then(ReadParamsV(ts, p + 1), LAMBDA ps :
         Bind(ReadIds(ts, ps.p), LAMBDA as :
           IF IsKw(Tok(ts, as.p), "AS") THEN ReadDefGateType(ts, Tok(ts, p).s, ps.v, as.v, Tok(ts, as.p + 1).s, as.p + 2)
           ELSE ReadDefGateType(ts, Tok(ts, p).s, ps.v, as.v, "MATRIX", as.p)))

ReadSharing(ts, name, ty, len, q) ==     \* q: position after the vector
  IF IsKw(Tok(ts, q), "SHARING") /\ Tok(ts, q + 1).c = "id"
  THEN IF IsKw(Tok(ts, q + 2), "OFFSET")
       THEN Bind(ReadOffsets(ts, q + 3), LAMBDA o :
              IF o.v = <<>> THEN Ok(Declare(name, ty, len, Some(Sharing(Tok(ts, q + 1).s, <<>>))), q + 2)
              ELSE Ok(Declare(name, ty, len, Some(Sharing(Tok(ts, q + 1).s, o.v))), o.p))
       ELSE Ok(Declare(name, ty, len, Some(Sharing(Tok(ts, q + 1).s, <<>>))), q + 2)
  ELSE Ok(Declare(name, ty, len, None), q)
ReadDeclare(ts, p) ==
  IF ~(Tok(ts, p).c = "id" /\ Tok(ts, p + 1).c = "kw" /\ Tok(ts, p + 1).s \in DataTypes) THEN Fail
  ELSE IF IsPun(Tok(ts, p + 2), "[") /\ Tok(ts, p + 3).c = "int" /\ IsPun(Tok(ts, p + 4), "]")
       THEN ReadSharing(ts, Tok(ts, p).s, Tok(ts, p + 1).s, Tok(ts, p + 3).n, p + 5)
       ELSE ReadSharing(ts, Tok(ts, p).s, Tok(ts, p + 1).s, 1, p + 2)

\* optional `!name`
ReadBang(ts, p) == IF IsPun(Tok(ts, p), "!") /\ Tok(ts, p + 1).c = "id" THEN Ok(Some(Tok(ts, p + 1).s), p + 2) ELSE Ok(None, p)

ReadPulseLike(ts, p, cmd, blocking) ==
  Then(ReadFrame(ts, p), LAMBDA f :
    CASE cmd = "PULSE" -> Then(ReadWf(ts, f.p), LAMBDA w : Ok(Pulse(blocking, f.v, w.v), w.p))
      [] cmd = "CAPTURE" -> Then(ReadWf(ts, f.p), LAMBDA w :
                              Then(ReadMRef(ts, w.p), LAMBDA m : Ok(Capture(blocking, f.v, w.v, m.v), m.p)))
      [] cmd = "RAW-CAPTURE" -> Then(ReadExpr(ts, f.p), LAMBDA d :
                                  Then(ReadMRef(ts, d.p), LAMBDA m : Ok(RawCapture(blocking, f.v, d.v, m.v), m.p)))
      [] OTHER -> Fail)

ReadMeasure(ts, p) ==
  Bind(ReadBang(ts, p), LAMBDA b :
    Then(ReadQ(ts, b.p), LAMBDA q :
      OrElse(ReadMRef(ts, q.p), Ok(Measure(b.v, q.v, None), q.p), LAMBDA m : Ok(Measure(b.v, q.v, Some(m.v)), m.p))))
ReadDefCalMeasureTail(ts, b, q, target, tp) ==      \* tp: position of ":"
  IF ~IsPun(Tok(ts, tp), ":") THEN Fail
  ELSE Then(NonEmpty(ReadBlock(ts, tp + 1)), LAMBDA body : Ok(DefCalMeasure(b.v, q.v, target, body.v), body.p))
ReadDefCal(ts, p) ==
  IF IsKw(Tok(ts, p), "MEASURE")
  THEN Bind(ReadBang(ts, p + 1), LAMBDA b :
         Then(ReadQ(ts, b.p), LAMBDA q :
           IF Tok(ts, q.p).c = "id" THEN ReadDefCalMeasureTail(ts, b, q, Some(Tok(ts, q.p).s), q.p + 1)
           ELSE ReadDefCalMeasureTail(ts, b, q, None, q.p)))
  ELSE Then(ReadGateHead(ts, p), LAMBDA g :
         IF ~IsPun(Tok(ts, g.p), ":") THEN Fail
         ELSE Then(NonEmpty(ReadBlock(ts, g.p + 1)), LAMBDA body :
                Ok(DefCal(g.v.name, g.v.params, g.v.qubits, g.v.mods, body.v), body.p)))

ReadCommand(ts, p, c) ==     \* p is the position after the command token c
  CASE c \in ArithOps -> Then(ReadMRef(ts, p), LAMBDA d : Then(ReadOperand(ts, d.p, TRUE), LAMBDA o : Ok(Arith(c, d.v, o.v), o.p)))
    [] c \in LogicOps -> Then(ReadMRef(ts, p), LAMBDA d : Then(ReadOperand(ts, d.p, FALSE), LAMBDA o : Ok(Logic(c, d.v, o.v), o.p)))
    [] c = "MOVE" -> Then(ReadMRef(ts, p), LAMBDA d : Then(ReadOperand(ts, d.p, TRUE), LAMBDA o : Ok(Move(d.v, o.v), o.p)))
    [] c \in UnaryOps -> Then(ReadMRef(ts, p), LAMBDA d : Ok(Unary(c, d.v), d.p))
    [] c \in CompareOps -> Then(ReadMRef(ts, p), LAMBDA d : Then(ReadMRef(ts, d.p), LAMBDA l :
                             Then(ReadOperand(ts, l.p, TRUE), LAMBDA o : Ok(Compare(c, d.v, l.v, o.v), o.p))))
    [] c \in {"CONVERT", "EXCHANGE"} ->
         Then(ReadMRef(ts, p), LAMBDA a : Then(ReadMRef(ts, a.p), LAMBDA b :
           Ok(IF c = "CONVERT" THEN Convert(a.v, b.v) ELSE Exchange(a.v, b.v), b.p)))
    [] c = "LOAD" -> Then(ReadMRef(ts, p), LAMBDA d :
                       IF Tok(ts, d.p).c # "id" THEN Fail
                       ELSE Then(ReadMRef(ts, d.p + 1), LAMBDA o : Ok(Load(d.v, Tok(ts, d.p).s, o.v), o.p)))
    [] c = "STORE" -> IF Tok(ts, p).c # "id" THEN Fail
                      ELSE Then(ReadMRef(ts, p + 1), LAMBDA o :
                             Then(ReadOperand(ts, o.p, TRUE), LAMBDA s : Ok(Store(Tok(ts, p).s, o.v, s.v), s.p)))
    [] c \in {"LABEL", "JUMP"} -> IF Tok(ts, p).c # "tgt" THEN Fail
                                  ELSE Ok(IF c = "LABEL" THEN Label(TFixed(Tok(ts, p).v)) ELSE Jump(TFixed(Tok(ts, p).v)), p + 1)
    [] c \in {"JUMP-WHEN", "JUMP-UNLESS"} ->
         IF Tok(ts, p).c # "tgt" THEN Fail
         ELSE Then(ReadMRef(ts, p + 1), LAMBDA m :
                Ok(IF c = "JUMP-WHEN" THEN JumpWhen(TFixed(Tok(ts, p).v), m.v) ELSE JumpUnless(TFixed(Tok(ts, p).v), m.v), m.p))
    [] c = "HALT" -> Ok(Halt, p) [] c = "NOP" -> Ok(Nop, p) [] c = "WAIT" -> Ok(Wait, p)
    [] c = "PRAGMA" -> IF Tok(ts, p).c # "id" THEN Fail
                       ELSE Bind(ReadPragmaArgs(ts, p + 1), LAMBDA a :
                              IF Tok(ts, a.p).c = "str" THEN Ok(Pragma(Tok(ts, p).s, a.v, Some(Tok(ts, a.p).v)), a.p + 1)
                              ELSE Ok(Pragma(Tok(ts, p).s, a.v, None), a.p))
    [] c = "INCLUDE" -> IF Tok(ts, p).c = "str" THEN Ok(Include(Tok(ts, p).v), p + 1) ELSE Fail
    [] c = "CALL" -> IF Tok(ts, p).c # "id" THEN Fail
                     ELSE Bind(ReadCallArgs(ts, p + 1), LAMBDA a : Ok(Call(Tok(ts, p).s, a.v), a.p))
    [] c = "DECLARE" -> ReadDeclare(ts, p)
    [] c = "MEASURE" -> ReadMeasure(ts, p)
    [] c = "RESET" -> OrElse(ReadQ(ts, p), Ok(Reset(None), p), LAMBDA q : Ok(Reset(Some(q.v)), q.p))
    [] c = "FENCE" -> Bind(ReadQs(ts, p), LAMBDA q : Ok(Fence(q.v), q.p))
    [] c = "DELAY" -> ReadDelay(ts, p)
    [] c \in {"PULSE", "CAPTURE", "RAW-CAPTURE"} -> ReadPulseLike(ts, p, c, TRUE)
    [] c \in FrameExprCmds -> Then(ReadFrame(ts, p), LAMBDA f : Then(ReadExpr(ts, f.p), LAMBDA e : Ok(FrameExpr(c, f.v, e.v), e.p)))
    [] c = "SWAP-PHASES" -> Then(ReadFrame(ts, p), LAMBDA f : Then(ReadFrame(ts, f.p), LAMBDA g : Ok(SwapPhases(f.v, g.v), g.p)))
    [] c = "DEFFRAME" -> Then(ReadFrame(ts, p), LAMBDA f :
                           IF ~IsPun(Tok(ts, f.p), ":") THEN Fail
                           ELSE Then(NonEmpty(ReadAttrs(ts, f.p + 1)), LAMBDA a : Ok(DefFrame(f.v, a.v), a.p)))
    [] c = "DEFWAVEFORM" ->
         Then(ReadWfName(ts, p), LAMBDA n : Then(ReadParamsV(ts, n.p), LAMBDA ps :
           IF ~(IsPun(Tok(ts, ps.p), ":") /\ Tok(ts, ps.p + 1).c = "nl" /\ Tok(ts, ps.p + 2).c = "ind") THEN Fail
           ELSE Then(ReadExprList(ts, ps.p + 3), LAMBDA m : Ok(DefWaveform(n.v.base, n.v.ext, ps.v, m.v), m.p))))
    [] c = "DEFGATE" -> ReadDefGate(ts, p)
    [] c = "DEFCIRCUIT" ->
         IF Tok(ts, p).c # "id" THEN Fail
         ELSE Then(ReadParamsV(ts, p + 1), LAMBDA ps : Bind(ReadQNames(ts, ps.p), LAMBDA qv :
                IF ~IsPun(Tok(ts, qv.p), ":") THEN Fail
                ELSE Then(NonEmpty(ReadBlock(ts, qv.p + 1)), LAMBDA b : Ok(DefCircuit(Tok(ts, p).s, ps.v, qv.v, b.v), b.p))))
    [] c = "DEFCAL" -> ReadDefCal(ts, p)
    [] OTHER -> Fail

ReadI(ts, p) ==
  IF Tok(ts, p).c = "kw" /\ Tok(ts, p).s \in Commands THEN ReadCommand(ts, p + 1, Tok(ts, p).s)
  ELSE IF IsKw(Tok(ts, p), "NONBLOCKING")
       THEN IF Tok(ts, p + 1).c = "kw" /\ Tok(ts, p + 1).s \in {"PULSE", "CAPTURE", "RAW-CAPTURE"}
            THEN ReadPulseLike(ts, p + 2, Tok(ts, p + 1).s, FALSE) ELSE Fail
  ELSE IF Tok(ts, p).c = "id" \/ (Tok(ts, p).c = "kw" /\ Tok(ts, p).s \in Modifiers) THEN ReadGateHead(ts, p)
  ELSE Fail

\* parse_instructions: instructions separated by new lines (leading / trailing new lines skipped), all consumed
RECURSIVE SkipNl(_, _), ReadProgramFrom(_, _)
SkipNl(ts, p) == IF Tok(ts, p).c = "nl" THEN SkipNl(ts, p + 1) ELSE p
ReadProgramAt(ts, q) ==
  IF q > Len(ts) THEN Ok(<<>>, q)
  ELSE Then(ReadI(ts, q), LAMBDA i : Then(ReadProgramFrom(ts, i.p), LAMBDA r : Cons(i.v, r)))
ReadProgramFrom(ts, p) == ReadProgramAt(ts, SkipNl(ts, p))
ReadProgram(ps) == ReadProgramFrom(Toks(ps), 1)
ReadOne(ps) == Then(ReadProgram(ps), LAMBDA r : IF Len(r.v) = 1 THEN Ok(r.v[1], r.p) ELSE Fail)

---------------------------------------------------------------------------
(* The normal form the parser produces from the printed form of a value: expressions through CanonE. *)

RECURSIVE CanonI(_)
CanonEs(es) == [n \in DOMAIN es |-> CanonE(es[n])]
CanonIs(is) == [n \in DOMAIN is |-> CanonI(is[n])]
CanonKVs(kvs) == [n \in DOMAIN kvs |-> KV(kvs[n].key, CanonE(kvs[n].val))]
CanonWf(w) == [w EXCEPT !.params = CanonKVs(w.params)]
CanonGate(g) == [g EXCEPT !.params = CanonEs(g.params)]
CanonAttr(a) == IF a.val.t = "expr" THEN AttrExpr(a.key, CanonE(a.val.e)) ELSE a
CanonSpec(sp) ==
  CASE sp.t = "matrix" -> SpecMatrix([n \in DOMAIN sp.rows |-> CanonEs(sp.rows[n])])
    [] sp.t = "perm"   -> sp
    [] sp.t = "pauli"  -> SpecPauli(sp.args, [n \in DOMAIN sp.terms |-> [sp.terms[n] EXCEPT !.e = CanonE(sp.terms[n].e)]])
    [] sp.t = "seq"    -> SpecSeq(sp.qubits, [n \in DOMAIN sp.gates |-> CanonGate(sp.gates[n])])
CanonI(i) ==
  CASE i.k = "Gate" -> CanonGate(i)
    [] i.k = "DefCal" -> [i EXCEPT !.params = CanonEs(i.params), !.body = CanonIs(i.body)]
    [] i.k \in {"DefCalMeasure", "DefCircuit"} -> [i EXCEPT !.body = CanonIs(i.body)]
    [] i.k = "DefGate" -> [i EXCEPT !.spec = CanonSpec(i.spec)]
    [] i.k = "DefWaveform" -> [i EXCEPT !.matrix = CanonEs(i.matrix)]
    [] i.k = "DefFrame" -> [i EXCEPT !.attrs = [n \in DOMAIN i.attrs |-> CanonAttr(i.attrs[n])]]
    [] i.k \in {"Delay", "RawCapture"} -> [i EXCEPT !.duration = CanonE(i.duration)]
    [] i.k = "Pulse" -> [i EXCEPT !.waveform = CanonWf(i.waveform)]
    [] i.k = "Capture" -> [i EXCEPT !.waveform = CanonWf(i.waveform)]
    [] i.k = "FrameExpr" -> [i EXCEPT !.e = CanonE(i.e)]
    [] OTHER -> i

---------------------------------------------------------------------------
(* The properties, on (value, printed pieces, re-read value) *)

\* C04 / C02 for one instruction: the printed form is lexed as printed, is read back, and what is read back is
\* the value up to the value-preserving normal form of its expressions
PrintsAndReadsBack(i) ==
  Bind(PrintI(i), LAMBDA ps :
    /\ LexStable(ps)
    /\ Bind(ReadOne(ps), LAMBDA r : r.ok /\ r.v = CanonI(i)))
\* C02, second serialization: the re-read value prints to the same text
PrintIsStable(i) == Text(PrintI(CanonI(i))) = Text(PrintI(i))
\* C04: a placeholder is present exactly when serialization fails
RECURSIVE HasPh(_)
QPhIn(qs) == \E n \in DOMAIN qs : qs[n].t = "ph"
FramePh(f) == QPhIn(f.qubits)
HasPh(i) ==
  CASE i.k = "Gate" -> QPhIn(i.qubits)
    [] i.k = "DefCal" -> QPhIn(i.qubits) \/ \E n \in DOMAIN i.body : HasPh(i.body[n])
    [] i.k = "DefCalMeasure" -> i.qubit.t = "ph" \/ \E n \in DOMAIN i.body : HasPh(i.body[n])
    [] i.k = "DefCircuit" -> \E n \in DOMAIN i.body : HasPh(i.body[n])
    [] i.k = "Measure" -> i.qubit.t = "ph"
    [] i.k = "Reset" -> IsSome(i.qubit) /\ i.qubit.some.t = "ph"
    [] i.k \in {"Delay", "Fence"} -> QPhIn(i.qubits)
    [] i.k \in {"Pulse", "Capture", "RawCapture", "FrameExpr"} -> FramePh(i.frame)
    [] i.k = "DefFrame" -> FramePh(i.id)
    [] i.k = "SwapPhases" -> FramePh(i.frame_1) \/ FramePh(i.frame_2)
    [] i.k \in {"Label", "Jump", "JumpWhen", "JumpUnless"} -> i.target.t = "ph"
    [] OTHER -> FALSE
PlaceholderIffFails(i) == HasPh(i) <=> ToQuilFails(i)

\* The two families for which the statement of C04 is known not to hold (known findings): a CALL immediate that
\* prints with a sign or as a sum, and an ambiguous DELAY -- anywhere in the value, bodies included
CallImmSigned(i) == i.k = "Call" /\ \E n \in DOMAIN i.args : i.args[n].t = "imm" /\ NeedsGroup(i.args[n].v)
RECURSIVE KnownNotToRoundTrip(_)
KnownNotToRoundTrip(i) ==
  \/ CallImmSigned(i) \/ DelayAmbiguous(i)
  \/ (i.k \in {"DefCal", "DefCalMeasure", "DefCircuit"} /\ \E n \in DOMAIN i.body : KnownNotToRoundTrip(i.body[n]))

---------------------------------------------------------------------------
(* Programs: Program::add_instruction routes definitions into ordered tables (a later definition with the same
   key replaces the earlier one in place) and everything else into the body; to_instructions lists the tables
   in a fixed order and then the body (program/mod.rs:233-315, 450-483).  The printed program is that listing. *)

SectionOf(i) ==
  CASE i.k = "Pragma" /\ i.name = "EXTERN" -> 1
    [] i.k = "Declare" -> 2 [] i.k = "DefFrame" -> 3 [] i.k = "DefWaveform" -> 4
    [] i.k = "DefCal" -> 5 [] i.k = "DefCalMeasure" -> 6 [] i.k = "DefGate" -> 7 [] i.k = "DefCircuit" -> 8
    [] OTHER -> 9
KeyOf(i) ==
  CASE SectionOf(i) = 1 -> [k |-> 1, key |-> IF i.args # <<>> /\ i.args[1].t = "id" THEN Some(i.args[1].s) ELSE None]
    [] SectionOf(i) = 2 -> [k |-> 2, key |-> i.name]
    [] SectionOf(i) = 3 -> [k |-> 3, key |-> i.id]
    [] SectionOf(i) = 4 -> [k |-> 4, key |-> <<i.base, i.ext>>]
    [] SectionOf(i) = 5 -> [k |-> 5, key |-> <<i.mods, i.name, i.params, i.qubits>>]
    [] SectionOf(i) = 6 -> [k |-> 6, key |-> <<i.name, i.qubit, i.target>>]
    [] SectionOf(i) = 7 -> [k |-> 7, key |-> i.name]
    [] SectionOf(i) = 8 -> [k |-> 8, key |-> i.name]
    [] OTHER -> [k |-> 9]
RECURSIVE Upsert(_, _)
Upsert(tbl, i) == IF tbl = <<>> THEN <<i>>
                  ELSE IF KeyOf(Head(tbl)) = KeyOf(i) THEN <<i>> \o Tail(tbl) ELSE <<Head(tbl)>> \o Upsert(Tail(tbl), i)
RECURSIVE SectionTable(_, _)
AddTo(before, i, sec) == IF SectionOf(i) # sec THEN before ELSE IF sec = 9 THEN Append(before, i) ELSE Upsert(before, i)
SectionTable(is, sec) ==      \* fold of add_instruction over the instructions of one section
  IF is = <<>> THEN <<>> ELSE AddTo(SectionTable(SubSeq(is, 1, Len(is) - 1), sec), is[Len(is)], sec)
Listing(is) == FlattenSeq([sec \in 1..9 |-> SectionTable(is, sec)])

\* the listing of a listing is itself (so that the second serialization can equal the first)
ListingIsFixpoint(is) == Listing(Listing(is)) = Listing(is)
\* C02 for a program given as the instruction values of its source text
ProgramRoundTrip(is) ==
  Bind(Listing(is), LAMBDA L : Bind(PrintProgram(L), LAMBDA ps :
    /\ LexStable(ps)
    /\ Bind(ReadProgram(ps), LAMBDA r :
         /\ r.ok /\ r.v = CanonIs(L)
         /\ Listing(r.v) = r.v                                  \* the re-parsed program is the same program
         /\ Text(PrintProgram(Listing(r.v))) = Text(ps))))      \* and prints byte-identically
=============================================================================
