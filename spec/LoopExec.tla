------------------------------ MODULE LoopExec ------------------------------
(***************************************************************************)
(* Program::wrap_in_loop (quil-rs/src/program/mod.rs) and a classical      *)
(* interpreter that *executes* what it returns.                            *)
(*                                                                         *)
(* The interpreter is the state machine (pc, mem, executed, halted): one   *)
(* action per instruction class.  Its input `prog` is an abstract listing: *)
(*   Op(text)            an opaque body instruction (gate, pragma, pulse,  *)
(*                       classical instruction on other regions): running  *)
(*                       it appends its text to `executed`                 *)
(*   Move(c, v)          MOVE ctr[c] v        (literal integer)            *)
(*   Arith(op, c, v)     ADD/SUB/MUL ctr[c] v (literal integer)            *)
(*   Label(t)  Jump(t)  JumpWhen(t, c)  JumpUnless(t, c)  Halt             *)
(*   Unknown(text)       anything else that mentions the counter region or *)
(*                       a jump on another region: no rule, the machine is *)
(*                       stuck                                             *)
(* `mem` holds the cells of the counter region only (everything else is    *)
(* opaque); a cell never written reads as 0.  JUMP-WHEN jumps iff the cell *)
(* is non-zero; a jump needs exactly one LABEL with its target.            *)
(*                                                                         *)
(* In the model run (spec/mc/MC_LoopExec.tla) `prog` is the model's ideal  *)
(* construction Wrap(...); in trace validation                             *)
(* (spec/trace/LoopExecTrace.tla) `prog` is the body exported from the     *)
(* real wrap_in_loop, i.e. the code's output is the interpreter's input.   *)
(*                                                                         *)
(* C33: <>halted, and at halt executed = the original body n times.        *)
(***************************************************************************)
EXTENDS Abs, TLC

Op(text)         == [k |-> "Op", text |-> text]
Move(c, v)       == [k |-> "Move", cell |-> c, v |-> v]
Arith(op, c, v)  == [k |-> "Arith", op |-> op, cell |-> c, v |-> v]
Label(t)         == [k |-> "Label", target |-> t]
Jump(t)          == [k |-> "Jump", target |-> t]
JumpWhen(t, c)   == [k |-> "JumpWhen", target |-> t, cell |-> c]
JumpUnless(t, c) == [k |-> "JumpUnless", target |-> t, cell |-> c]
Halt             == [k |-> "Halt"]
Unknown(text)    == [k |-> "Unknown", text |-> text]

----------------------------------------------------------------------------
\* wrap_in_loop: the body.  `c` is the index of the counter reference handed in, `t` the start target.
\* Deviations (as-built behaviours / seeded mutations used to show what the property catches):
\*   "SubHardcodesCellZero"  as built before fix f30d5a1: the SUB addresses <counter>[0] whatever index the
\*                           reference has
\*   "JumpUnless" "InitNMinus1" "DecrementFirst" "NoLabel"   mutations, never on in shipped configurations
CONSTANT Deviations

Wrap(b, n, c, t) ==
  LET subcell == IF "SubHardcodesCellZero" \in Deviations THEN 0 ELSE c
      init    == IF "InitNMinus1" \in Deviations THEN n - 1 ELSE n
      back    == IF "JumpUnless" \in Deviations THEN JumpUnless(t, c) ELSE JumpWhen(t, c)
      head    == IF "NoLabel" \in Deviations THEN <<Move(c, init)>> ELSE <<Move(c, init), Label(t)>>
  IN IF n = 0 THEN <<>>
     ELSE IF n = 1 THEN b
     ELSE IF "DecrementFirst" \in Deviations
          THEN head \o <<Arith("SUB", subcell, 1)>> \o b \o <<back>>
          ELSE head \o b \o <<Arith("SUB", subcell, 1), back>>

\* wrap_in_loop: the definitions.  A program lists its definitions by section (sec: 0 extern pragmas,
\* 1 declarations, 2 frames, 3 waveforms, 4 calibrations, 5 gate definitions, 6 circuits), each section in
\* insertion order; an entry is [key, text, sec].  For n >= 2 the counter is declared (replacing a
\* declaration of the same name in place, else last in its section); nothing else changes.
WrapDefs(defs, n, decl) ==
  IF n < 2 THEN defs
  ELSE IF \E m \in DOMAIN defs : defs[m].key = decl.key
       THEN [m \in DOMAIN defs |-> IF defs[m].key = decl.key THEN decl ELSE defs[m]]
       ELSE SelectSeq(defs, LAMBDA d : d.sec <= decl.sec) \o <<decl>> \o SelectSeq(defs, LAMBDA d : d.sec > decl.sec)

----------------------------------------------------------------------------
VARIABLES body,      \* the original body: sequence of Op(...)            (input, constant during a run)
          iters,     \* n                                                 (input)
          prog,      \* the listing being executed
          pc,        \* 1-based program counter
          mem,       \* cells of the counter region: function index -> integer
          executed,  \* texts of the opaque instructions executed so far
          halted, stuck,
          steps      \* instructions executed so far (termination bound)
vars == <<body, iters, prog, pc, mem, executed, halted, stuck, steps>>

Load(b, n, p) == /\ body = b /\ iters = n /\ prog = p /\ pc = 1 /\ mem = [c \in {} |-> 0]
                 /\ executed = <<>> /\ halted = FALSE /\ stuck = FALSE /\ steps = 0

Read(c)     == IF c \in DOMAIN mem THEN mem[c] ELSE 0
Write(c, v) == [x \in DOMAIN mem \cup {c} |-> IF x = c THEN v ELSE mem[x]]
LabelAt(t)  == {p \in DOMAIN prog : prog[p].k = "Label" /\ prog[p].target = t}
Dest(t)     == CHOOSE p \in LabelAt(t) : TRUE
Running     == ~halted /\ ~stuck /\ pc \in DOMAIN prog
At(kind)    == Running /\ prog[pc].k = kind
Advance(to) == pc' = to /\ steps' = steps + 1 /\ UNCHANGED <<body, iters, prog, halted, stuck>>

ExecOp    == At("Op") /\ executed' = Append(executed, prog[pc].text) /\ Advance(pc + 1) /\ UNCHANGED mem
ExecMove  == At("Move") /\ mem' = Write(prog[pc].cell, prog[pc].v) /\ Advance(pc + 1) /\ UNCHANGED executed
ExecArith == /\ At("Arith") /\ prog[pc].op \in {"ADD", "SUB", "MUL"}
             /\ LET i == prog[pc] IN
                mem' = Write(i.cell, CASE i.op = "ADD" -> Read(i.cell) + i.v
                                       [] i.op = "SUB" -> Read(i.cell) - i.v
                                       [] i.op = "MUL" -> Read(i.cell) * i.v)
             /\ Advance(pc + 1) /\ UNCHANGED executed
ExecLabel == At("Label") /\ Advance(pc + 1) /\ UNCHANGED <<mem, executed>>
ExecJump  == /\ At("Jump") /\ Cardinality(LabelAt(prog[pc].target)) = 1
             /\ Advance(Dest(prog[pc].target)) /\ UNCHANGED <<mem, executed>>
ExecJumpWhen ==
             /\ At("JumpWhen") /\ Cardinality(LabelAt(prog[pc].target)) = 1
             /\ Advance(IF Read(prog[pc].cell) # 0 THEN Dest(prog[pc].target) ELSE pc + 1)
             /\ UNCHANGED <<mem, executed>>
ExecJumpUnless ==
             /\ At("JumpUnless") /\ Cardinality(LabelAt(prog[pc].target)) = 1
             /\ Advance(IF Read(prog[pc].cell) = 0 THEN Dest(prog[pc].target) ELSE pc + 1)
             /\ UNCHANGED <<mem, executed>>
\* HALT, or falling off the end of the listing
ExecHalt  == /\ ~halted /\ ~stuck /\ (pc = Len(prog) + 1 \/ (pc \in DOMAIN prog /\ prog[pc].k = "Halt"))
             /\ halted' = TRUE /\ UNCHANGED <<body, iters, prog, pc, mem, executed, stuck, steps>>
\* no rule: an instruction the interpreter cannot give a meaning to, an arithmetic operator it does not
\* know, or a jump whose target does not name exactly one label
GetStuck  == /\ Running
             /\ \/ prog[pc].k \notin {"Op", "Move", "Arith", "Label", "Jump", "JumpWhen", "JumpUnless", "Halt"}
                \/ (prog[pc].k = "Arith" /\ prog[pc].op \notin {"ADD", "SUB", "MUL"})
                \/ (prog[pc].k \in {"Jump", "JumpWhen", "JumpUnless"} /\ Cardinality(LabelAt(prog[pc].target)) # 1)
             /\ stuck' = TRUE /\ UNCHANGED <<body, iters, prog, pc, mem, executed, halted, steps>>

Exec == ExecOp \/ ExecMove \/ ExecArith \/ ExecLabel \/ ExecJump \/ ExecJumpWhen \/ ExecJumpUnless
        \/ ExecHalt \/ GetStuck

----------------------------------------------------------------------------
\* The property (C33)
Texts(b) == [m \in DOMAIN b |-> b[m].text]
RECURSIVE Repeat(_, _)
Repeat(s, n) == IF n = 0 THEN <<>> ELSE s \o Repeat(s, n - 1)
IsPrefix(s, t) == Len(s) <= Len(t) /\ SubSeq(t, 1, Len(s)) = s

\* "executes the original body exactly n times in order and then stops"
ExactlyNTimes  == halted => executed = Repeat(Texts(body), iters)
\* the safety half while running: never an instruction out of order, never an (n+1)-th round
InOrderSoFar   == IsPrefix(executed, Repeat(Texts(body), iters))
NotStuck       == ~stuck
\* termination as a bound.  The construction needs MOVE + n * (LABEL + body + SUB + JUMP-WHEN) steps; the
\* bound is more generous (n + 1 passes over the whole listing) so that an equivalent construction with a
\* few more bookkeeping instructions is not rejected for being slower.
StepBound      == steps <= (iters + 1) * (Len(prog) + 1)
NeverNegative  == \A c \in DOMAIN mem : mem[c] >= 0
Terminates     == <>halted

\* "for n = 1 the program is unchanged, for n = 0 only the body is removed"
SmallNShape    == /\ iters = 1 => prog = body
                  /\ iters = 0 => prog = <<>>
=============================================================================
