---------------------------- MODULE MC_TypeCheck ----------------------------
(* Bounded exploration of TypeCheck.  Declarations are fixed: r REAL, n INTEGER, b BIT, o OCTET; the name u is
   never declared.  Two uses (two configurations):

   Table = TRUE   "rule table": every single instruction over the five names (all operand shapes of every
                  checked kind) and SET/SHIFT with every expression of depth <= 2 over the leaves
                  {r, n, u, a real number, numbers with imaginary part +2, -2, +0.001, -0.001, pi, a variable}; one-instruction programs.
   Table = FALSE  "programs": every body up to MaxLen over a reduced alphabet of well-typed and ill-typed
                  instructions of every kind, each also transformed once - two instructions swapped, one
                  duplicated, or the regions consistently renamed (a swap of two declared names, a move to
                  fresh names, a swap of a declared with the undeclared name) - and checked to keep the
                  verdict of the program it came from (SameAsBase).                                       *)
EXTENDS TypeCheck, Json
CONSTANTS MaxLen, Table, FullDepth2

D0 == ("r" :> "REAL") @@ ("n" :> "INTEGER") @@ ("b" :> "BIT") @@ ("o" :> "OCTET")
N5 == {"r", "n", "b", "o", "u"}
Operands == {OInt, OReal} \cup {OMem(x) : x \in N5}

\* numbers: real; imaginary part positive, negative (constructible through the API only - the harness builds
\* every expression through the public constructors), and small of both signs but far above the code's
\* f64::EPSILON tolerance
Leaves   == {EAddr("r"), EAddr("n"), EAddr("u"), ENum("1.5", "0"), ENum("0", "2.0"), ENum("1.5", "-2.0"),
             ENum("0", "0.001"), ENum("1.5", "-0.001"), EPi, EVar("x")}
Wrap1(S) == {ENeg(e) : e \in S} \cup {EFn("sin", e) : e \in S}
D1 == Leaves \cup Wrap1(Leaves) \cup {EInf("+", l, r) : l, r \in Leaves}
D2 == D1 \cup Wrap1(D1)
         \cup (IF FullDepth2 THEN {EInf("+", l, r) : l, r \in D1}
               ELSE {EInf("+", l, r) : l \in D1, r \in Leaves} \cup {EInf("+", l, r) : l \in Leaves, r \in D1})

TableAlphabet ==
  {SetShift(e) : e \in D2}
  \cup {Arith(x, s) : x \in N5, s \in Operands} \cup {Move(x, s) : x \in N5, s \in Operands}
  \cup {Logic(x, s) : x \in N5, s \in Operands \ {OReal}}
  \cup {Unary(op, x) : op \in {"NOT", "NEG"}, x \in N5}
  \cup {Compare(x, y, s) : x \in N5, y \in N5, s \in Operands}
  \cup {Exchange(x, y) : x \in N5, y \in N5}
  \cup {Load(x, y, z) : x \in N5, y \in N5, z \in N5}
  \cup {Store(x, y, s) : x \in N5, y \in N5, s \in Operands}
  \cup {Convert("r", "n"), Other("X 0")}

ProgramAlphabet ==
  { SetShift(EAddr("r")), SetShift(EInf("+", EAddr("r"), EVar("x"))), SetShift(EFn("sin", EAddr("u"))),
    Move("n", OInt), Move("r", OInt), Move("u", OInt),
    Arith("n", OMem("n")), Arith("r", OMem("n")),
    Logic("b", OMem("o")), Unary("NEG", "b"),
    Compare("b", "n", OMem("n")), Exchange("r", "n"),
    Load("r", "r", "n"), Store("o", "n", OInt), Convert("r", "n") }
Alphabet == IF Table THEN TableAlphabet ELSE ProgramAlphabet

Renamings == { ("r" :> "n") @@ ("n" :> "r"), ("r" :> "z") @@ ("u" :> "w"), ("b" :> "u") @@ ("u" :> "b") }

Self(via) == [decls |-> decls, body |-> body, via |-> via]
Init == /\ decls = D0 /\ body = <<>> /\ base = [decls |-> D0, body |-> <<>>, via |-> "none"]
        /\ pc = 1 /\ verdict = None /\ phase = "gen"
Grow == /\ phase = "gen" /\ Len(body) < MaxLen
        /\ \E i \in Alphabet : body' = Append(body, i)
        /\ UNCHANGED <<decls, base, pc, verdict, phase>>
Start == /\ phase = "gen" /\ phase' = "run" /\ base' = Self("none")
         /\ UNCHANGED <<decls, body, pc, verdict>>
StartSwapped ==
         /\ phase = "gen" /\ ~Table /\ phase' = "run" /\ base' = Self("swap")
         /\ \E i \in DOMAIN body : \E j \in DOMAIN body : i < j /\ body' = SwapAt(body, i, j)
         /\ UNCHANGED <<decls, pc, verdict>>
StartDuplicated ==
         /\ phase = "gen" /\ ~Table /\ phase' = "run" /\ base' = Self("dup")
         /\ \E i \in DOMAIN body : body' = DupAt(body, i)
         /\ UNCHANGED <<decls, pc, verdict>>
StartRenamed ==
         /\ phase = "gen" /\ ~Table /\ body # <<>> /\ phase' = "run" /\ base' = Self("rename")
         /\ \E s \in Renamings : body' = RenBody(s, body) /\ decls' = RenDecls(s, decls)
         /\ UNCHANGED <<pc, verdict>>
Next == Grow \/ Start \/ StartSwapped \/ StartDuplicated \/ StartRenamed \/ Step \/ Finish
Spec == Init /\ [][Next]_vars

NameOrder == <<"r", "n", "b", "o", "u", "z", "w">>
DeclSeq(d) == LET ns == SelectSeq(NameOrder, LAMBDA x : x \in DOMAIN d)
              IN [m \in DOMAIN ns |-> [name |-> ns[m], ty |-> d[ns[m]]]]
Emit == phase = "done" =>
   PrintT(<<"CASE", ToJson([base |-> [decls |-> DeclSeq(base.decls), body |-> base.body], via |-> base.via,
                            decls |-> DeclSeq(decls), body |-> body,
                            per |-> [m \in DOMAIN body |-> InstrOk(decls, body[m])],
                            ok |-> IsNone(verdict)])>>)
=============================================================================
