SPECIFICATION Spec
CONSTANT MaxLen = 4
CONSTANT Table = FALSE
CONSTANT FullDepth2 = FALSE
INVARIANT Decomposes
INVARIANT FirstError
INVARIANT SameAsBase
INVARIANT Emit
CHECK_DEADLOCK FALSE
