SPECIFICATION Spec
CONSTANT Deviations = {}
CONSTANT MaxLenQ = 3
CONSTANT MaxLenT = 4
CONSTANT MaxLenMixed = 3
CONSTANT MaxSetT = 4
CONSTANT MaxSetPh = 6
CONSTANT MaxLenCustom = 3
INVARIANT Requirements
INVARIANT ResolverMaps
INVARIANT SmallestFirst
INVARIANT ScanInv
INVARIANT StepsAreFolds
INVARIANT Idempotent
INVARIANT Emit
CHECK_DEADLOCK FALSE
