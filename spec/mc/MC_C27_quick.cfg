SPECIFICATION Spec
CONSTANT MaxParams = 2
INVARIANT SemanticsOk
INVARIANT RuleOk
INVARIANT CapturesOnlyFromQuantum
INVARIANT Emit
CHECK_DEADLOCK FALSE
