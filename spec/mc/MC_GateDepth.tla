--------------------------- MODULE MC_GateDepth ---------------------------
(* Bounded exploration of GateDepth.  The body is grown one instruction at a time.  Qubits are
   interchangeable for the builder (a HashMap keyed by qubit), so with Canonical = TRUE only bodies are
   generated whose qubits are first mentioned in the order 0, 1, 2, ...; the harness undoes the symmetry
   reduction by replaying every case under several relabelings and operand orders (c29.rs).
   Gates act on pairwise distinct qubits (operands listed ascending); see the exclusion in GateDepth.tla. *)
EXTENDS GateDepth, Json
CONSTANTS MaxLen, NQ, MaxArity, WithUnsupported, Canonical

UsedIn(b) == UNION {QSet(b[n]) : n \in DOMAIN b}
CanonOK(b, S) == LET n   == Cardinality(UsedIn(b))
                     new == S \ (0..(n - 1))
                 IN ~Canonical \/ new = n..(n + Cardinality(new) - 1)
QSets == {S \in SUBSET (0..(NQ - 1)) : Cardinality(S) \in 1..MaxArity}
Alphabet(b) == {Gate(SetToSeq(S)) : S \in {T \in QSets : CanonOK(b, T)}}
               \cup {Measure(q) : q \in {r \in 0..(NQ - 1) : CanonOK(b, {r})}}
               \cup {Classical}
               \cup (IF WithUnsupported THEN {Unsupported(<<>>)} ELSE {})

Init == RunInit(<<>>) /\ phase = "gen"
Grow == /\ phase = "gen" /\ Len(body) < MaxLen
        /\ \E i \in Alphabet(body) : body' = Append(body, i)
        /\ UNCHANGED <<pc, last, edges, failed, stack, best, npaths, phase>>
Start == /\ phase = "gen" /\ phase' = "run"
         /\ UNCHANGED <<body, pc, last, edges, failed, stack, best, npaths>>
Next == Grow \/ Start \/ Step \/ StartFold \/ FoldPop \/ FoldDone \/ FoldAll
Spec == Init /\ [][Next]_vars

Emit == phase = "done" =>
          PrintT(<<"CASE", ToJson([body |-> body, failed |-> failed, depth |-> best])>>)
=============================================================================
