------------------------- MODULE MC_QuilPrintNames -------------------------
(* C06: every name position of the language x every spelling of a name.

   A case is (position, name): the program text in which the name sits at that position (pieces, printed by
   QuilPrint's printer or -- for the spellings the printer never emits: a bare memory reference, a %qubit --
   put together here) and the listing the parser must produce, with the name byte-for-byte in place.
   Optionally the program is preceded by `DECLARE name REAL[2]` (SameRegion: the declaration and the use must
   carry the same region name).

   Names:  plain, mixed case, upper case, dashes, leading underscore, digits, and spellings that differ from a
           keyword only by case (the lexer's keywords are case-sensitive, so `matrix`, `Dagger`, `bit` are
           identifiers);
           the words parse_expression_identifier reserves (case-insensitively): pi, i, sin, cos, cis, exp, sqrt.
           Those are ordinary identifiers everywhere except as a bare word inside an expression, where the
           statement of C06 excepts them: there the model only checks that they do NOT become a region.      *)
EXTENDS QuilPrint, Json
CONSTANT WithDeclare     \* also generate DECLARE name + use

M1  == Mag("1", "1.0", FALSE, 1)
Mags == {M0, M1}
One == Real(FALSE, M1)
Q0 == Fixed(0)
S_rf == <<"r", "f">>
F0 == Frame(S_rf, <<Q0>>)
MR == MRef("ro", 0)
GX == Gate("X", <<>>, <<Q0>>, <<>>)

\* spellings that equal a keyword of the lexer up to letter case, for every keyword class (Command, Modifier,
\* DataType, KeywordToken): identifiers, because the lexer's keywords are case-sensitive.  (The harness sweeps ALL
\* 67 keywords x {lower, Capitalised, UPPER} x 33 positions, plus the special names, from the committed baseline spec/mc/C06_keyword_cases.ndjson.)
KeywordLookAlikes == {"measure", "Declare", "halt", "jump-when", "Move",          \* commands
                      "dagger", "Controlled", "forked",                          \* modifiers
                      "bit", "Real", "integer",                                  \* data types
                      "matrix", "sharing", "nonblocking", "As", "Mut", "MUT", "pauli-sum", "offset"}   \* keyword tokens
\* spellings that equal, up to letter case, a name that is not a keyword but means something somewhere: the reserved
\* pragma name EXTERN, standard gates, built-in waveforms, true (the harness sweeps all of them, harvested from the
\* sources, in four spellings)
SpecialLookAlikes == {"extern", "Extern", "cnot", "Swap", "Gaussian", "true"}
PlainNames    == {"ro", "Theta", "THETA", "a-b", "_x1", "Sin2", "x-1-y"} \cup KeywordLookAlikes \cup SpecialLookAlikes
ReservedNames == {"pi", "PI", "i", "I", "sin", "SIN", "Cos", "sqrt", "Exp", "cis"}
Names == PlainNames \cup ReservedNames

\* a case: the value, and the pieces of its text when the spelling is not the printer's own (else <<>>)
OfValue(v) == [raw |-> <<>>, v |-> v]
Raw(ps, v) == [raw |-> ps, v |-> v]
PiecesOf(c) == IF c.raw = <<>> THEN PrintProgram(<<c.v>>) ELSE c.raw \o NL
RXp(e) == Gate("RX", <<e>>, <<Q0>>, <<>>)
W(base, ext, params) == WfInv(base, ext, params)

\* position -> case for name n
Case(pos, n) ==
  CASE pos = "declare.name"      -> OfValue(Declare(n, "BIT", 1, None))
    [] pos = "declare.sharing"   -> OfValue(Declare("x", "BIT", 1, Some(Sharing(n, <<Offset(1, "BIT")>>))))
    [] pos = "memref.dst"        -> OfValue(Move(MRef(n, 1), OInt(FALSE, "1")))
    [] pos = "memref.dst.bare"   -> Raw(Kw("MOVE") \o SP \o Name(n) \o SP \o IntP("1", 1), Move(MRef(n, 0), OInt(FALSE, "1")))
    [] pos = "memref.src"        -> OfValue(Move(MR, OMRef(MRef(n, 1))))
    [] pos = "memref.src.bare"   -> Raw(Kw("MOVE") \o SP \o ShowMRef(MR) \o SP \o Name(n), Move(MR, OMRef(MRef(n, 0))))
    [] pos = "expr.index"        -> OfValue(RXp(Addr(MRef(n, 1))))
    [] pos = "expr.bare"         -> Raw(Name("RX") \o Paren(Name(n)) \o SP \o Nat2P(0), RXp(Addr(MRef(n, 0))))
    [] pos = "expr.bare.infix"   -> Raw(Name("RX") \o Paren(IntP("1", 1) \o Op("+") \o Name(n)) \o SP \o Nat2P(0),
                                        RXp(Inf("+", One, Addr(MRef(n, 0)))))
    [] pos = "expr.bare.fn"      -> Raw(Name("RX") \o Paren(Name("cos") \o Paren(Name(n))) \o SP \o Nat2P(0),
                                        RXp(Fn("cos", Addr(MRef(n, 0)))))
    [] pos = "expr.delay"        -> Raw(Kw("DELAY") \o SP \o Nat2P(0) \o SP \o Name(n), Delay(Addr(MRef(n, 0)), <<>>, <<Q0>>))
    [] pos = "expr.attr"         -> Raw(Kw("DEFFRAME") \o SP \o ShowFrame(F0) \o Pun(":") \o NL \o IND \o Name("SAMPLE-RATE") \o Pun(":") \o SP \o Name(n),
                                        DefFrame(F0, <<AttrExpr("SAMPLE-RATE", Addr(MRef(n, 0)))>>))
    [] pos = "call.name"         -> OfValue(Call(n, <<CArgId("ro")>>))
    [] pos = "call.arg.id"       -> OfValue(Call("f", <<CArgId(n), CArgImm(One)>>))
    [] pos = "call.arg.mref"     -> OfValue(Call("f", <<CArgMRef(MRef(n, 2))>>))
    [] pos = "label"             -> OfValue(Label(TFixed(n)))
    [] pos = "jump"              -> OfValue(Jump(TFixed(n)))
    [] pos = "jump-when.target"  -> OfValue(JumpWhen(TFixed(n), MR))
    [] pos = "jump-unless.cond"  -> OfValue(JumpUnless(TFixed("end"), MRef(n, 0)))
    [] pos = "jump-when.cond.bare" -> Raw(Kw("JUMP-WHEN") \o SP \o TgtP("end") \o SP \o Name(n), JumpWhen(TFixed("end"), MRef(n, 0)))
    [] pos = "gate.name"         -> OfValue(Gate(n, <<>>, <<Q0>>, <<>>))
    [] pos = "gate.name.params"  -> OfValue(Gate(n, <<One>>, <<Q0>>, <<"DAGGER">>))
    [] pos = "gate.name.varqubit" -> OfValue(Gate(n, <<>>, <<QVar("q9"), Q0>>, <<>>))
    [] pos = "defgate.name"      -> OfValue(DefGate(n, <<>>, SpecPerm(<<0, 1>>)))
    [] pos = "defgate.param"     -> OfValue(DefGate("G", <<n>>, SpecMatrix(<<<<Fn("cos", EVar(n))>>>>)))
    [] pos = "defgate.pauli.arg" -> OfValue(DefGate("U", <<>>, SpecPauli(<<n>>, <<PTerm("X", One, <<n>>)>>)))
    [] pos = "defgate.seq.arg"   -> OfValue(DefGate("SQ", <<>>, SpecSeq(<<n>>, <<Gate("H", <<>>, <<QVar(n)>>, <<>>)>>)))
    [] pos = "defcircuit.name"   -> OfValue(DefCircuit(n, <<>>, <<>>, <<GX>>))
    [] pos = "defcircuit.param"  -> OfValue(DefCircuit("C", <<n>>, <<>>, <<RXp(EVar(n))>>))
    [] pos = "defcircuit.qubit"  -> OfValue(DefCircuit("C", <<>>, <<n>>, <<Gate("X", <<>>, <<QVar(n)>>, <<>>)>>))
    [] pos = "defcal.name"       -> OfValue(DefCal(n, <<>>, <<Q0>>, <<>>, <<Nop>>))
    [] pos = "defcal.param"      -> OfValue(DefCal("RX", <<EVar(n)>>, <<Q0>>, <<>>, <<FrameExpr("SHIFT-PHASE", F0, EVar(n))>>))
    [] pos = "defcal.qubit"      -> OfValue(DefCal("X", <<>>, <<QVar(n)>>, <<>>, <<Fence(<<QVar(n)>>)>>))
    [] pos = "defcal-measure.qubit"  -> OfValue(DefCalMeasure(None, QVar(n), None, <<Nop>>))
    [] pos = "defcal-measure.target" -> OfValue(DefCalMeasure(None, Q0, Some(n), <<Capture(TRUE, F0, W("flat", None, <<>>), MRef(n, 0))>>))
    [] pos = "defcal-measure.name"   -> OfValue(DefCalMeasure(Some(n), Q0, None, <<Nop>>))
    [] pos = "measure.name"      -> OfValue(Measure(Some(n), Q0, Some(MR)))
    [] pos = "measure.qubit"     -> OfValue(Measure(None, QVar(n), None))
    [] pos = "measure.target"    -> OfValue(Measure(None, Q0, Some(MRef(n, 1))))
    [] pos = "measure.target.bare" -> Raw(Kw("MEASURE") \o SP \o Nat2P(0) \o SP \o Name(n), Measure(None, Q0, Some(MRef(n, 0))))
    [] pos = "qubit.variable"    -> OfValue(Gate("X", <<>>, <<QVar(n), Q0>>, <<>>))
    [] pos = "qubit.percent"     -> Raw(Name("X") \o SP \o VarP(n), Gate("X", <<>>, <<QVar(n)>>, <<>>))
    [] pos = "reset.qubit"       -> OfValue(Reset(Some(QVar(n))))
    [] pos = "fence.qubit"       -> OfValue(Fence(<<Q0, QVar(n)>>))
    [] pos = "delay.qubit"       -> OfValue(Delay(One, <<S_rf>>, <<QVar(n)>>))
    [] pos = "frame.qubit"       -> OfValue(FrameExpr("SET-PHASE", Frame(S_rf, <<QVar(n)>>), One))
    [] pos = "variable"          -> OfValue(RXp(Inf("*", One, EVar(n))))
    [] pos = "waveform.name"     -> OfValue(Pulse(TRUE, F0, W(n, None, <<>>)))
    [] pos = "waveform.ext"      -> OfValue(Pulse(TRUE, F0, W("q0", Some(n), <<KV("a", One)>>)))
    [] pos = "waveform.key"      -> OfValue(Capture(TRUE, F0, W("flat", None, <<KV(n, One)>>), MR))
    [] pos = "defwaveform.name"  -> OfValue(DefWaveform(n, None, <<>>, <<One>>))
    [] pos = "defwaveform.param" -> OfValue(DefWaveform("wf", Some("b"), <<n>>, <<EVar(n)>>))
    [] pos = "defframe.attr.key" -> OfValue(DefFrame(F0, <<AttrStr(n, <<"t", "x">>)>>))
    [] pos = "capture.mref"      -> OfValue(Capture(TRUE, F0, W("flat", None, <<>>), MRef(n, 1)))
    [] pos = "raw-capture.mref.bare" -> Raw(Kw("RAW-CAPTURE") \o SP \o ShowFrame(F0) \o SP \o ShowE(One) \o SP \o Name(n), RawCapture(TRUE, F0, One, MRef(n, 0)))
    [] pos = "pragma.name"       -> OfValue(Pragma(n, <<>>, None))
    [] pos = "pragma.arg"        -> OfValue(Pragma("foo", <<PArgId(n), PArgInt("1")>>, None))
    [] pos = "load.source"       -> OfValue(Load(MR, n, MRef("idx", 0)))
    [] pos = "store.destination" -> OfValue(Store(n, MRef("idx", 0), OMRef(MRef(n, 1))))
    [] pos = "exchange"          -> OfValue(Exchange(MRef(n, 0), MRef(n, 1)))
    [] pos = "compare"           -> OfValue(Compare("EQ", MR, MRef(n, 0), OMRef(MRef(n, 1))))

Positions ==
  {"declare.name", "declare.sharing", "memref.dst", "memref.dst.bare", "memref.src", "memref.src.bare", "expr.index", "expr.bare",
   "expr.bare.infix", "expr.bare.fn", "expr.delay", "expr.attr", "call.name", "call.arg.id", "call.arg.mref", "label", "jump",
   "jump-when.target", "jump-unless.cond", "jump-when.cond.bare", "gate.name", "gate.name.params", "gate.name.varqubit", "defgate.name", "defgate.param",
   "defgate.pauli.arg", "defgate.seq.arg", "defcircuit.name", "defcircuit.param", "defcircuit.qubit", "defcal.name", "defcal.param",
   "defcal.qubit", "defcal-measure.qubit", "defcal-measure.target", "defcal-measure.name", "measure.name", "measure.qubit",
   "measure.target", "measure.target.bare", "qubit.variable", "qubit.percent", "reset.qubit", "fence.qubit", "delay.qubit",
   "frame.qubit", "variable", "waveform.name", "waveform.ext", "waveform.key", "defwaveform.name", "defwaveform.param",
   "defframe.attr.key", "capture.mref", "raw-capture.mref.bare", "pragma.name", "pragma.arg", "load.source", "store.destination",
   "exchange", "compare"}
\* positions where the name is a bare word inside an expression: the reserved words mean something else there
BareExprPositions == {"expr.bare", "expr.bare.infix", "expr.bare.fn", "expr.delay", "expr.attr"}
\* positions where the name denotes a memory region (SameRegion: DECLARE name + use)
RegionPositions == {"memref.dst", "memref.dst.bare", "memref.src", "memref.src.bare", "expr.index", "expr.bare", "expr.bare.infix",
                    "expr.bare.fn", "expr.delay", "call.arg.id", "call.arg.mref", "jump-unless.cond", "jump-when.cond.bare",
                    "measure.target", "measure.target.bare", "capture.mref", "raw-capture.mref.bare", "load.source",
                    "store.destination", "exchange", "compare", "declare.sharing"}

VARIABLES pos, name, decl, phase,
          pieces, want       \* the case itself: the program text (as pieces) and the listing the parser must produce
vars == <<pos, name, decl, phase, pieces, want>>
Init == pos = "none" /\ name = "none" /\ decl = FALSE /\ phase = "gen" /\ pieces = <<>> /\ want = <<>>
TheDeclOf(n) == Declare(n, "REAL", 2, None)
SetCase(c, n, d) == /\ pieces' = PrintProgram(IF d THEN <<TheDeclOf(n)>> ELSE <<>>) \o PiecesOf(c)
                    /\ want' = (IF d THEN <<TheDeclOf(n)>> ELSE <<>>) \o <<c.v>>
Pick == /\ phase = "gen"
        /\ \E p \in Positions, n \in Names, d \in (IF WithDeclare THEN BOOLEAN ELSE {FALSE}) :
             /\ (d => p \in RegionPositions)
             /\ pos' = p /\ name' = n /\ decl' = d
             /\ SetCase(Case(p, n), n, d)
        /\ phase' = "done"
Next == Pick
Spec == Init /\ [][Next]_vars

\* a word `i` right after a numeric literal is the imaginary unit (parse_immediate_value; only the lower-case
\* spelling): `RAW-CAPTURE 0 "rf" 1 i` is the duration 1i followed by nothing
AfterNumberPositions == {"raw-capture.mref.bare"}
IsReservedHere == \/ name \in ReservedNames /\ pos \in BareExprPositions
                  \/ name = "i" /\ pos \in AfterNumberPositions
ThePieces == pieces
TheWant   == want

\* every address in an expression value
RECURSIVE AddrNames(_)
AddrNames(e) ==
  CASE e.t = "addr" -> {e.m.name}
    [] e.t \in {"neg", "pos", "fn"} -> AddrNames(e.e)
    [] e.t = "inf" -> AddrNames(e.l) \cup AddrNames(e.r)
    [] OTHER -> {}
ExprOfCase(v) == CASE v.k = "Gate" -> v.params[1] [] v.k = "Delay" -> v.duration [] v.k = "DefFrame" -> v.attrs[1].val.e

\* ---------------------------------------------------------------- invariants
\* the text is lexed as written
LexedAsWritten == phase = "done" => LexStable(ThePieces)
\* C06: the parsed program carries the name byte-for-byte at its position (the whole listing is as expected),
\* and with a declaration in front the use names the declared region
NamePreserved == phase = "done" /\ ~IsReservedHere =>
                   Bind(ReadProgram(ThePieces), LAMBDA r : r.ok /\ r.v = TheWant)
\* the exception of the statement: a reserved word as a bare word in an expression is not a region -- whatever
\* it is read as (pi, the imaginary unit, a function call or a syntax error), it does not name a region
ReservedIsNotARegion == phase = "done" /\ IsReservedHere =>
                   Bind(ReadProgram(ThePieces), LAMBDA r :
                     (r.ok /\ pos \in BareExprPositions) => name \notin AddrNames(ExprOfCase(r.v[Len(r.v)])))
\* names that only differ by case from a keyword are identifiers (the lexer's keywords are case-sensitive)
KeywordsAreCaseSensitive == \A n \in Names : n \notin Reserved

Emit == phase = "done" =>
  PrintT(<<"CASE", ToJson([pos |-> pos, name |-> name, decl |-> decl, reserved |-> IsReservedHere,
                           text |-> Text(ThePieces), want |-> TheWant,
                           \* the same text written with a neutral name: tells a rejection that is due to the name
                           \* from a change of the position's grammar
                           neutral |-> Text(PrintProgram(IF decl THEN <<TheDeclOf("zq9")>> ELSE <<>>) \o PiecesOf(Case(pos, "zq9")))])>>)
=============================================================================
