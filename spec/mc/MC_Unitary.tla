---------------------------- MODULE MC_Unitary ----------------------------
(* Bounded exploration of the builder machine of Unitary: register sizes, base gates with every
   injective placement, modifier stacks grown by the builder calls (first modifier outermost),
   programs grown by Append.  Every reachable gate value (and every program) is one CASE line:
   the input and the sparse symbolic matrix the specification expects.                          *)
EXTENDS Unitary, Json
CONSTANTS Ns,            \* register sizes
          AllGates,      \* standard gates explored up to ShallowDepth modifiers
          DeepGates,     \* gates explored up to MaxDepth modifiers
          ShallowDepth, MaxDepth,
          MaxProg        \* programs of up to MaxProg gates (0: gates only)

InjSeqs(k, nn) == {s \in [1..k -> 0..nn-1] : \A a, b \in 1..k : a # b => s[a] # s[b]}
DepthFor(name) == IF name \in DeepGates THEN MaxDepth ELSE ShallowDepth

Init == (\E nn \in Ns : BInit(nn)) /\ LIdle
New == /\ \E name \in AllGates \cup DeepGates :
            /\ Arity[name] <= n /\ (MaxProg > 0 => Len(prog) < MaxProg)
            /\ \E qs \in InjSeqs(Arity[name], n) : NewGate(name, qs)
       /\ UNCHANGED lvars
CanGrow == IsSome(cur) /\ Len(cur.some.mods) < DepthFor(cur.some.name)
Dag  == CanGrow /\ ApplyDagger /\ UNCHANGED lvars
Ctl  == CanGrow /\ (\E q \in 0..n-1 : ApplyControlled(q)) /\ UNCHANGED lvars
Frk  == CanGrow /\ (\E q \in 0..n-1 : ApplyForked(q)) /\ UNCHANGED lvars
App  == MaxProg > 0 /\ AppendGate /\ UNCHANGED lvars
Next == New \/ Dag \/ Ctl \/ Frk \/ App
Spec == Init /\ [][Next]_<<bvars, lvars>>

ASSUME ConjSound
\* unitarity of the lifted matrix in GF(991^2) costs 8^n field multiplications: small registers only
CurLiftUnitarySmall == n <= 3 => CurLiftUnitary

GateJson(g) == [name |-> g.name, mods |-> g.mods, qubits |-> g.qs, np |-> g.np]
Emit ==
  /\ (IsSome(cur) /\ prog = <<>>) =>
        LET G == U(cur.some, n) IN
        PrintT(<<"CASE", ToJson([kind |-> "gate", n |-> n, gate |-> GateJson(cur.some),
                                 entries |-> Sparse(G)])>>)
  /\ (IsNone(cur) /\ prog # <<>>) =>
        PrintT(<<"CASE", ToJson([kind |-> "prog", n |-> n,
                                 gates |-> [j \in DOMAIN prog |-> GateJson(prog[j])],
                                 mats |-> [j \in DOMAIN prog |-> Sparse(U(prog[j], n))],
                                 dagger |-> [j \in DOMAIN prog |-> GateJson(DaggerProg(prog)[j])]])>>)
=============================================================================
