SPECIFICATION Spec
CONSTANT MaxLen = 5
CONSTANT Instances = {"mem"}
INVARIANT DepsExact
INVARIANT ConflictsOrdered
INVARIANT DepsJustified
INVARIANT ReadsUnordered
INVARIANT DepsEarlier
INVARIANT PendingExact
INVARIANT CellExact
INVARIANT Emit
CHECK_DEADLOCK FALSE
