SPECIFICATION Spec
CONSTANT Deviations = {}
CONSTANT LeafSet = "small"
CONSTANT SiblingSet = "all"
CONSTANT MaxDepth = 2
CONSTANT NEnvs = 3
INVARIANT SimplifySound
INVARIANT NoNewNames
INVARIANT NeverPi
INVARIANT OperandsSound
INVARIANT RuleSound
INVARIANT NoGrowth
INVARIANT MachineIsSimplify
INVARIANT Emit
CHECK_DEADLOCK FALSE
