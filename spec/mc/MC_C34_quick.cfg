SPECIFICATION Spec
CONSTANT Deviations = {}
CONSTANT MaxLenQ = 3
CONSTANT MaxLenT = 3
CONSTANT MaxLenMixed = 2
CONSTANT MaxSetT = 3
CONSTANT MaxSetPh = 5
CONSTANT MaxLenCustom = 2
INVARIANT Requirements
INVARIANT ResolverMaps
INVARIANT SmallestFirst
INVARIANT ScanInv
INVARIANT StepsAreFolds
INVARIANT Idempotent
INVARIANT Emit
CHECK_DEADLOCK FALSE
