SPECIFICATION Spec
CONSTANT MaxBody = 3
CONSTANT MaxIter = 4
CONSTANT Ops = {"a", "b", "c"}
CONSTANT Cells = {0, 1, 2}
CONSTANT Shapes = {"ideal", "unless"}
CONSTANT Deviations = {}
INVARIANT ExactlyNTimes
INVARIANT InOrderSoFar
INVARIANT NotStuck
INVARIANT StepBound
INVARIANT NeverNegative
INVARIANT SmallNShape
INVARIANT CounterTracksRounds
INVARIANT DefsPreservedModel
INVARIANT Emit
PROPERTY Terminates
CHECK_DEADLOCK FALSE
