SPECIFICATION Spec
CONSTANT Deviations = {}
CONSTANT LeafSet = "small"
CONSTANT OpSet = "two"
CONSTANT MaxDepth = 2
INVARIANT IterInvariant
INVARIANT MemRefsExact
INVARIANT MemRefsInOrder
INVARIANT Defined
INVARIANT SubstEval
INVARIANT SubstCompose
INVARIANT SubstNames
INVARIANT Emit
CHECK_DEADLOCK FALSE
