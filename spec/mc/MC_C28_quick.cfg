SPECIFICATION Spec
CONSTANT MaxLen = 5
CONSTANT WithInclude = TRUE
CONSTANT LabelArmAlwaysAddsOne = FALSE
INVARIANT Partition
INVARIANT OffsetExact
INVARIANT NonEmpty
INVARIANT Boundaries
INVARIANT Dynamic
INVARIANT Consumed
INVARIANT Emit
CHECK_DEADLOCK FALSE
