SPECIFICATION Spec
CONSTANT MaxCals = 2
CONSTANT Names = {"X", "RX"}
CONSTANT QueryNames = {"RX"}
CONSTANT ModSets <- ModsAll
CONSTANT MeasCals = TRUE
INVARIANT GateRefines
INVARIANT MeasRefines
INVARIANT ChosenIsLegal
INVARIANT GatePrefixBest
INVARIANT MeasSuffixBest
INVARIANT ReplaceInPlace
INVARIANT UniqueSignatures
INVARIANT Emit
CHECK_DEADLOCK FALSE
