SPECIFICATION Spec
CONSTANT Focuses = {"general", "mods", "params", "qubits", "meas"}
CONSTANT MaxGeneral = 2
CONSTANT MaxSmall = 3
CONSTANT MaxMeas = 2
CONSTANT GeneralNames = {"RX"}
INVARIANT GateRefines
INVARIANT MeasRefines
INVARIANT ChosenIsLegal
INVARIANT GatePrefixBest
INVARIANT MeasSuffixBest
INVARIANT ReplaceInPlace
INVARIANT UniqueSignatures
INVARIANT Emit
CHECK_DEADLOCK FALSE
