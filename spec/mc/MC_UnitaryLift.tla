-------------------------- MODULE MC_UnitaryLift --------------------------
(* The lifting algorithm of gate.rs (permutation_arbitrary + two_swap_helper + adjacent lift) run on
   every injective placement of k <= MaxK qubits into n <= MaxN qubits: one SwapStep per iteration
   of the inner for-loop.  Checked: the loop ends within two sweeps, never leaves the register
   (no u64 underflow in `start` / `top_qubits`), keeps qubit_arr a permutation, and what it computes
   is Lift (qubit 0 least significant, first listed qubit most significant inside the gate).      *)
EXTENDS Unitary, Json
CONSTANTS MaxN, MaxK, FullN     \* FullN: largest register on which the full matrices are compared

InjSeqs(k, nn) == {s \in [1..k -> 0..nn-1] : \A a, b \in 1..k : a # b => s[a] # s[b]}
Init == /\ BIdle
        /\ \E nn \in 1..MaxN : \E k \in 1..(IF nn < MaxK THEN nn ELSE MaxK) :
              \E qs \in InjSeqs(k, nn) : LInit(qs, nn)
Swap == SwapStep /\ UNCHANGED bvars
Next == Swap
Spec == Init /\ [][Next]_<<bvars, lvars>>
LiftRefinesFull == ln <= FullN => LiftRefines
\* one line per placement: the specification's index map `sub` (register index -> gate-local index),
\* with which the harness relates the real matrix on this placement to the real matrix of the same gate
\* on qubits k-1 .. 0; the final arrangement and the number of loop iterations are informational
Emit == lph = "done" =>
          PrintT(<<"CASE", ToJson([kind |-> "lift", n |-> ln, qubits |-> lqs, steps |-> steps,
                                   start |-> Start, arr |-> [p \in 1..ln |-> arr[p - 1]],
                                   sub |-> [r \in 1..Pow2(ln) |-> SubIdx(r - 1, lqs, 1)]])>>)
=============================================================================
