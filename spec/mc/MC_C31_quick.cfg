SPECIFICATION Spec
CONSTANT Family = "sig"
CONSTANT MaxParams = 3
CONSTANT CallLevel = 2
CONSTANT MutantParams = 1
INVARIANT RoundTrip
INVARIANT ParseCanonical
INVARIANT EmitSig
CHECK_DEADLOCK FALSE
