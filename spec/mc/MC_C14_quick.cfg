SPECIFICATION Spec
CONSTANT Ns = {1, 2, 3}
CONSTANT AllGates = {"I", "X", "Y", "Z", "H", "S", "T", "CNOT", "CCNOT", "CZ", "SWAP", "CSWAP", "ISWAP", "RX", "RY", "RZ", "PHASE", "CPHASE", "CPHASE00", "CPHASE01", "CPHASE10", "PSWAP"}
CONSTANT DeepGates = {}
CONSTANT ShallowDepth = 0
CONSTANT MaxDepth = 0
CONSTANT MaxProg = 0
INVARIANT CurWellFormed
INVARIANT CurKronLaw
INVARIANT CurEquivariant
INVARIANT CurMonomial
INVARIANT CurUnitary
INVARIANT CurLiftUnitarySmall
INVARIANT Emit
CHECK_DEADLOCK FALSE
