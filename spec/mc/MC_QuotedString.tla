------------------------- MODULE MC_QuotedString -------------------------
(* Bounded exploration of QuotedString: the string is grown one character at a time (so that all TLC
   workers share the enumeration), a continuation is chosen, then the lexer automaton runs on the
   printed text.  One CASE line per (string, continuation) that the harness can place in a program. *)
EXTENDS QuotedString, Json
CONSTANTS MaxLen

\* quote, backslash, newline, space, comment and separator characters, two letters ('n' because "\n"
\* is the escape a reader would expect to exist and does not)
Chars == {Q, BS, "\n", " ", "#", ";", "a", "n"}

\* what can follow the closing quote: end of text, end of line, a further operand, a further string,
\* and (never printed, but the automaton must stop all the same) an adjacent quote
Rests == { <<>>, <<"\n", "X">>, <<" ", "x">>, <<" ", Q, "b", Q>>, <<Q>> }
ReplayRests == Rests \ { <<Q>> }

Init == LexInit(<<>>, <<>>) /\ phase = "gen"
Grow == /\ phase = "gen" /\ Len(s) < MaxLen
        /\ \E c \in Chars : /\ s' = Append(s, c)
                            /\ txt' = Escape(s') 
        /\ UNCHANGED <<rest, pos, esc, phase, printed>>
Start == /\ phase = "gen"
         /\ \E r \in Rests : rest' = r /\ txt' = Escape(s) \o r
         /\ phase' = "lex" /\ UNCHANGED <<s, pos, esc, printed>>
\* the lexer on a text the printer did not write: an opening quote followed by the raw characters
StartRaw == /\ phase = "gen"
            /\ txt' = <<Q>> \o s /\ rest' = <<>> /\ printed' = FALSE
            /\ phase' = "lex" /\ UNCHANGED <<s, pos, esc>>
Next == Grow \/ Start \/ StartRaw \/ LexChar \/ Close \/ Eof
Spec == Init /\ [][Next]_vars

Emit == (phase \in {"closed", "eof"} /\ printed /\ rest \in ReplayRests) =>
          PrintT(<<"CASE", ToJson([s |-> s, rest |-> rest, quoted |-> Escape(s),
                                   ok |-> phase = "closed",
                                   val |-> IF phase = "closed" THEN Value ELSE <<>>])>>)
=============================================================================
