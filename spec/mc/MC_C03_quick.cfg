SPECIFICATION Spec
CONSTANT Deviations = {}
CONSTANT LeafSet = "small"
CONSTANT FnSet = "all"
CONSTANT FullDepth2 = FALSE
CONSTANT MaxDepth = 2
INVARIANT RoundTripParses
INVARIANT RoundTripValue
INVARIANT ReparseExact
INVARIANT NamesKept
INVARIANT ParsedNormal
INVARIANT Emit
CHECK_DEADLOCK FALSE
