-------------------------- MODULE MC_ExprSimplify --------------------------
(* Bounded exploration of ExprSimplify: the tree is grown one constructor at a time; every tree met on
   the way is simplified (Children, then one arm action).

   Depth-1 trees: every constructor over every pair of leaves.
   Depth-2 trees: a depth-1 tree wrapped once more; its sibling under an infix node is drawn from the leaves
                  and from a small set of depth-1 trees (Siblings = "few"), or from all depth-<=1 trees
                  (Siblings = "all").
   Seeds: hand-picked depth-3 trees for the arms that need two levels on both sides (affine). *)
EXTENDS ExprSimplify, Json
CONSTANTS LeafSet,     \* "small" | "full"
          SiblingSet,  \* "few" | "all"
          MaxDepth

X == Var("x")
Y == Var("y")
\* literals stay away from the simplifier's 1e-10 tolerance: magnitudes in {0} \cup [0.5, 10] (DESIGN.md §6 C12)
SmallLeaves == { X, Y, GNum(0), GNum(1), GNum(2), GNum(3), PiC }
FullLeaves  == SmallLeaves \cup { GNum(P - 1), GNum(Inv(2)), Addr("m", 0) }      \* -1, 1/2, m[0]
Leaves == IF LeafSet = "small" THEN SmallLeaves ELSE FullLeaves
Fns == {"sin"}
Prefixes == {"neg", "pos"}

D1  == Leaves \cup Wrap(Leaves, InfixOps, Fns, Prefixes)
Few == Wrap({X, GNum(2)}, {"+", "-", "*", "/"}, {}, {"neg"})
Siblings(e) == IF Depth(e) = 0 THEN Leaves
               ELSE IF SiblingSet = "all" THEN D1 ELSE Leaves \cup Few

\* the four ways mul_matches can pair the factors, in the order the code tries them
Seeds == { Inf(Inf(Inf(X, "*", GNum(2)), "+", Y), "+", Inf(Inf(X, "*", GNum(3)), "+", GNum(1))),
           Inf(Inf(Inf(GNum(2), "*", X), "+", Y), "+", Inf(Inf(GNum(3), "*", X), "+", GNum(1))),
           Inf(Inf(Inf(X, "*", GNum(2)), "+", Y), "+", Inf(Inf(GNum(3), "*", X), "+", Y)),
           Inf(Inf(Inf(Y, "*", X), "+", GNum(1)), "+", Inf(Inf(X, "*", X), "+", GNum(2))),
           Inf(Inf(Inf(GNum(2), "*", X), "+", Y), "+", Inf(Inf(Y, "*", GNum(2)), "+", X)),
           Inf(Inf(X, "-", Y), "/", Inf(Y, "-", X)),
           Inf(Inf(Neg(X), "*", Y), "-", Inf(X, "/", Neg(Y))) }

Init == \E e \in Leaves \cup Seeds : Fresh(e)
Grow == /\ phase = "gen" /\ Depth(tree) < MaxDepth
        /\ \/ \E o \in InfixOps, b \in Siblings(tree) : tree' = Inf(tree, o, b)
           \/ \E o \in InfixOps, b \in Siblings(tree) : tree' = Inf(b, o, tree)
           \/ \E f \in Fns : tree' = Fn(f, tree)
           \/ \E p \in Prefixes : tree' = [t |-> p, e |-> tree]
        /\ sl' = tree' /\ sr' = tree' /\ out' = tree' /\ UNCHANGED <<phase, arm>>
Next == Grow \/ Children \/ Arms
Spec == Init /\ [][Next]_vars

RECURSIVE HasFn(_)
HasFn(e) == CASE e.t = "fn" -> TRUE
              [] IsLeaf(e) -> FALSE
              [] e.t \in {"neg", "pos"} -> HasFn(e.e)
              [] e.t = "inf" -> HasFn(e.l) \/ HasFn(e.r)

\* exponents whose value is not an integer built from integer literals: there GF(1009) and floating point
\* may fold a closed power differently (4^(1/2), (2^pi)^(1/pi) are exact in floating point, generic here)
RECURSIVE OddExponent(_), HasOddPow(_)
OddExponent(e) == CASE e.t = "pi" -> TRUE
                    [] e.t = "num" -> e.n = Inv(2)
                    [] e.t \in {"var", "addr"} -> FALSE
                    [] e.t \in {"neg", "pos", "fn"} -> OddExponent(e.e)
                    [] e.t = "inf" -> e.op \in {"/", "^"} \/ OddExponent(e.l) \/ OddExponent(e.r)
HasOddPow(e) == CASE IsLeaf(e) -> FALSE
                  [] e.t \in {"neg", "pos", "fn"} -> HasOddPow(e.e)
                  [] e.t = "inf" -> (e.op = "^" /\ OddExponent(e.r)) \/ HasOddPow(e.l) \/ HasOddPow(e.r)

\* one line per explored tree: the input, the rule that fired at the root and the model's result
\* (`cmp`: the model's result is comparable with the real one: no function call and no power with a
\*  non-integer closed exponent, i.e. constant folding stays inside the fragment GF(1009) interprets exactly)
Emit == phase = "done" =>
          PrintT(<<"CASE", ToJson([tree |-> tree, arm |-> arm, out |-> out,
                                   cmp |-> ~HasFn(tree) /\ ~HasOddPow(tree)])>>)
=============================================================================
