---------------------------- MODULE MC_MemAccess ----------------------------
(* Bounded exploration of MemAccess: one instruction is picked from an alphabet that covers every operand
   form of every memory-touching instruction kind over regions a, b, c (different indices of one region
   included), expression-bearing instructions over a set of expressions of depth <= 2, and every CALL of up to
   MaxParams parameters against every signature over {scalar, fixed vector, variable vector} x {mut, immutable}
   x {return type, none}, with every argument form (region name, memory reference, immediate).
   Invariants: the code's table agrees with the derived semantics (classical instructions) and with the rule
   of the property (all other instructions).                                                             *)
EXTENDS MemAccess, Json
CONSTANTS MaxParams

Ref(n, i) == [name |-> n, index |-> i]
Refs == {Ref("a", 0), Ref("a", 1), Ref("b", 0), Ref("c", 1)}
Refs3 == {Ref("a", 0), Ref("b", 0), Ref("c", 1)}
MRef(m) == [t |-> "mref", m |-> m]
ArithOperands == {[t |-> "int"], [t |-> "real"]} \cup {MRef(m) : m \in Refs}
LogicOperands == {[t |-> "int"]} \cup {MRef(m) : m \in Refs}
Names == {"a", "b", "c"}

Num == [t |-> "num"]
Addr(n, i) == [t |-> "addr", m |-> Ref(n, i)]
Inf(o, x, y) == [t |-> "inf", op |-> o, l |-> x, r |-> y]
Neg(x) == [t |-> "neg", e |-> x]
Fn(f, x) == [t |-> "fn", f |-> f, e |-> x]
Exprs == { Num, [t |-> "pi"], [t |-> "var", v |-> "x"], Addr("a", 0), Neg(Addr("b", 1)), Fn("cos", Addr("c", 0)),
           Inf("+", Addr("a", 0), Addr("b", 0)), Inf("*", Num, Neg(Addr("c", 0))),
           Inf("/", Fn("sin", Addr("a", 1)), Inf("-", Addr("a", 0), Addr("c", 2))),
           Inf("^", Addr("b", 0), Num), Neg(Inf("+", Num, [t |-> "pi"])), Fn("sqrt", Inf("*", Addr("b", 0), Addr("b", 1))) }
FewExprs == { Num, Addr("a", 0), Inf("+", Addr("a", 0), Addr("b", 0)), Neg(Addr("c", 0)) }
Frame == [name |-> "x", qubits |-> <<0>>]

ClassicalAlphabet ==
    {[k |-> "Move", dst |-> d, src |-> s] : d \in Refs, s \in ArithOperands}
    \cup {[k |-> "Arith", op |-> o, dst |-> d, src |-> s] : o \in {"ADD", "SUB", "MUL", "DIV"}, d \in Refs, s \in ArithOperands}
    \cup {[k |-> "Logic", op |-> o, dst |-> d, src |-> s] : o \in {"AND", "IOR", "XOR"}, d \in Refs, s \in LogicOperands}
    \cup {[k |-> "Unary", op |-> o, operand |-> m] : o \in {"NEG", "NOT"}, m \in Refs}
    \cup {[k |-> "Compare", op |-> o, dst |-> d, lhs |-> x, rhs |-> y] :
            o \in {"EQ", "GE", "GT", "LE", "LT"}, d \in Refs3, x \in Refs3, y \in {[t |-> "int"], [t |-> "real"]} \cup {MRef(m) : m \in Refs3}}
    \cup {[k |-> "Convert", dst |-> d, src |-> m] : d \in Refs, m \in Refs}
    \cup {[k |-> "Exchange", left |-> x, right |-> y] : x \in Refs, y \in Refs}
    \cup {[k |-> "Load", dst |-> d, source |-> n, offset |-> o] : d \in Refs3, n \in Names, o \in Refs3}
    \cup {[k |-> "Store", destination |-> n, offset |-> o, src |-> s] : n \in Names, o \in Refs3,
                                                                       s \in {[t |-> "int"]} \cup {MRef(m) : m \in Refs3}}
    \cup {[k |-> kind, target |-> "t", cond |-> m] : kind \in {"JumpWhen", "JumpUnless"}, m \in Refs}
\* the generators leave out instructions that combine a cell with itself (see MemAccess!SelfCombining)
JudgedClassical == {i \in ClassicalAlphabet : ~SelfCombining(i)}

ExprAlphabet ==
    {[k |-> "Delay", duration |-> e, frame_names |-> <<>>, qubits |-> <<0>>] : e \in Exprs}
    \cup {[k |-> kind, frame |-> Frame, e |-> e] :
            kind \in {"SetPhase", "SetScale", "ShiftPhase", "SetFrequency", "ShiftFrequency"}, e \in Exprs}
    \cup {[k |-> "Pulse", blocking |-> TRUE, frame |-> Frame, wf |-> <<e1, e2>>] : e1 \in FewExprs, e2 \in Exprs}
    \cup {[k |-> "Capture", blocking |-> FALSE, frame |-> Frame, wf |-> <<Num, e>>, mref |-> m] : e \in Exprs, m \in Refs}
    \cup {[k |-> "RawCapture", blocking |-> TRUE, frame |-> Frame, duration |-> e, mref |-> m] : e \in Exprs, m \in Refs}
    \cup {[k |-> "Gate", name |-> "RX", params |-> <<e>>, qubits |-> <<0>>] : e \in Exprs}
    \cup {[k |-> "Gate", name |-> "U", params |-> <<e1, e2>>, qubits |-> <<0>>] : e1 \in FewExprs, e2 \in FewExprs}
    \cup {[k |-> "Measure", qubit |-> 0, target |-> t] : t \in {None} \cup {Some(m) : m \in Refs}}
PlainAlphabet ==
    { [k |-> "Fence", qubits |-> <<0>>], [k |-> "Reset", qubit |-> None], [k |-> "Reset", qubit |-> Some(0)],
      [k |-> "SwapPhases", frame_1 |-> Frame, frame_2 |-> Frame], [k |-> "Halt"], [k |-> "Wait"], [k |-> "Nop"],
      [k |-> "Jump", target |-> "t"], [k |-> "Label", target |-> "t"], [k |-> "Pragma", name |-> "p"],
      [k |-> "Declare", name |-> "a"], [k |-> "Gate", name |-> "X", params |-> <<>>, qubits |-> <<0>>] }

\* ---- CALL ----
ParamKinds == {[mut |-> m, ty |-> t] : m \in BOOLEAN, t \in {"scalar", "fixed", "var"}}
RECURSIVE SeqsUpTo(_, _)
SeqsUpTo(S, n) == IF n = 0 THEN {<<>>} ELSE LET T == SeqsUpTo(S, n - 1) IN T \cup {Append(t, x) : t \in {t \in T : Len(t) = n - 1}, x \in S}
\* (a signature with neither a return type nor parameters cannot be written: PRAGMA EXTERN rejects it)
Signatures == {sg \in {[ret |-> r, params |-> ps] : r \in BOOLEAN, ps \in SeqsUpTo(ParamKinds, MaxParams)} :
                 sg.ret \/ sg.params # <<>>}
ArgForms == {[t |-> "id", s |-> "a"], [t |-> "id", s |-> "b"], [t |-> "mref", m |-> Ref("a", 0)],
             [t |-> "mref", m |-> Ref("c", 1)], [t |-> "imm"]}
ArgsOfLen(n) == {as \in SeqsUpTo(ArgForms, n) : Len(as) = n}
Arity(sg) == Len(sg.params) + (IF sg.ret THEN 1 ELSE 0)

VARIABLES instr, sigs, phase
vars == <<instr, sigs, phase>>
NoSigs == <<>>
Init == instr = [k |-> "Nop"] /\ sigs = NoSigs /\ phase = "pick"
Pick(A) == phase = "pick" /\ (\E i \in A : instr' = i) /\ sigs' = NoSigs /\ phase' = "done"
PickClassical == phase = "pick" /\ Pick(JudgedClassical)
PickExpr      == phase = "pick" /\ Pick(ExprAlphabet)
PickPlain     == phase = "pick" /\ Pick(PlainAlphabet)
\* a call whose argument count matches its signature
PickCall == /\ phase = "pick"
            /\ \E sg \in Signatures : \E as \in ArgsOfLen(Arity(sg)) :
                 /\ sigs' = [f \in {"f"} |-> sg]
                 /\ instr' = [k |-> "Call", name |-> "f", args |-> as]
            /\ phase' = "done"
\* calls outside the property's reach: wrong argument count, unknown function (emitted, not judged)
PickIllFormedCall ==
            /\ phase = "pick"
            /\ \E sg \in {s \in Signatures : Len(s.params) <= 1} : \E n \in {Arity(sg) - 1, Arity(sg) + 1} \cap (0..3) :
               \E as \in ArgsOfLen(n) : \E fname \in {"f", "g"} :
                 /\ sigs' = [f \in {"f"} |-> sg]
                 /\ instr' = [k |-> "Call", name |-> fname, args |-> as]
            /\ phase' = "done"
Next == PickClassical \/ PickExpr \/ PickPlain \/ PickCall \/ PickIllFormedCall
Spec == Init /\ [][Next]_vars

Judged == instr.k = "Call" => CallWellFormed(instr, sigs)
SemanticsOk    == phase = "done" => SemanticsAgrees(instr)
RuleOk         == phase = "done" => NonClassicalAgrees(instr, sigs)
\* the three sets never name a region the instruction does not mention
CapturesOnlyFromQuantum == (phase = "done" /\ Judged) =>
    (Reported(instr, sigs).captures # {} => instr.k \in {"Capture", "RawCapture", "Measure"})

Want == IF instr.k = "Call" /\ ~CallKnown(instr, sigs) THEN [err |-> "unknown"]
        ELSE IF Judged THEN Demanded(instr, sigs) ELSE Reported(instr, sigs)
Emit == phase = "done" =>
          PrintT(<<"CASE", ToJson([instr |-> instr, sigs |-> sigs, judged |-> Judged, want |-> Want])>>)
=============================================================================
