SPECIFICATION Spec
CONSTANT Family = "sig"
CONSTANT MaxParams = 4
CONSTANT CallLevel = 3
CONSTANT MutantParams = 2
INVARIANT RoundTrip
INVARIANT ParseCanonical
INVARIANT EmitSig
CHECK_DEADLOCK FALSE
