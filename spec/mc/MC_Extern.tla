----------------------------- MODULE MC_Extern -----------------------------
(* Bounded exploration of Extern.  Two families (CONSTANT Family):

   "sig"   every signature with an optional return type out of {INTEGER, REAL, BIT} and up to MaxParams
           parameters over {scalar T, T[n], T[]} x {immutable, mut} (parameter alphabet below; the name of
           a parameter is fixed by its position: x, y_1, z-z, w0).  The signature is grown one parameter at a
           time; RoundTrip is checked in every state.  Sizes: return only (no parameter list at all),
           parameter lists of 1, 2, 3(+) with and without return type; vector length 0.  For signatures with at most MutantParams
           parameters the emitter also lists ParseSig of every single-token deletion and of every
           adjacent transposition of the printed tokens (the parser on near-miss inputs).

   "call"  the declared regions are a: INTEGER[1], v: REAL[3], b: BIT[1] (u is undeclared).
           One-parameter signatures over the full parameter alphabet x {no return, INTEGER, REAL} with
           every argument list of the right length over the full argument alphabet; two-parameter
           signatures over a reduced parameter alphabet (CallLevel 1: 4 types, CallLevel >= 2: 6 types)
           x {no return, INTEGER} with every argument list of the right length over a reduced argument
           alphabet (5 / 7 arguments); CallLevel 3 adds three-parameter signatures over the 4-type alphabet
           and the 5-argument alphabet; every signature also with one argument too few and one too many.

   Excluded by construction: duplicate region names, references with an index outside the region (the
   statement says "declared reference"; quil-rs does not bound-check here and a future bound check would
   not contradict the statement), parameter names that are not valid user identifiers. *)
EXTENDS Extern, Json
CONSTANTS Family, MaxParams, MutantParams, CallLevel

Names == <<"x", "y_1", "z-z", "w0">>
ParamTypes == {Scalar("INTEGER"), Scalar("REAL"), Scalar("BIT"),
               FixedVec("REAL", 3), FixedVec("REAL", 2), FixedVec("INTEGER", 3), FixedVec("BIT", 1),
               FixedVec("REAL", 0),                                       \* degenerate length
               VarVec("REAL"), VarVec("BIT")}
ParamTypesS == {Scalar("INTEGER"), Scalar("REAL"), FixedVec("REAL", 3), VarVec("BIT")}
ParamTypes2 == IF CallLevel >= 2 THEN ParamTypesS \cup {FixedVec("REAL", 2), Scalar("BIT")} ELSE ParamTypesS
Rets == {None, Some("INTEGER"), Some("REAL"), Some("BIT")}

Decls == <<[name |-> "a", ty |-> "INTEGER", len |-> 1], [name |-> "v", ty |-> "REAL", len |-> 3],
           [name |-> "b", ty |-> "BIT", len |-> 1]>>
Id(s) == [t |-> "id", s |-> s]
MRef(n, ix) == [t |-> "mref", name |-> n, index |-> ix]
Imm(v) == [t |-> "imm", v |-> v]
ArgAlphabet == {Id("a"), Id("v"), Id("b"), Id("u"), MRef("a", 0), MRef("v", 2), MRef("b", 0), MRef("u", 0),
                Imm("1"), Imm("2.5")}
ArgAlphabetS == {Id("a"), Id("v"), MRef("v", 1), Id("u"), Imm("1")}
ArgAlphabet2 == IF CallLevel >= 2 THEN ArgAlphabetS \cup {MRef("a", 0), Id("b")} ELSE ArgAlphabetS
Filler == <<Id("a"), MRef("v", 1), Imm("1"), Id("v"), Id("b")>>

Init == /\ sig = Sig(None, <<>>) /\ decls = Decls /\ args = <<>> /\ phase = "gen"
        /\ i = 1 /\ resolved = <<>> /\ errors = <<>> /\ outcome = None

\* ---- family "sig": grow the signature
SetRet == /\ Family = "sig" /\ phase = "gen" /\ sig.params = <<>> /\ IsNone(sig.ret)
          /\ \E r \in Rets \ {None} : sig' = [sig EXCEPT !.ret = r]
          /\ UNCHANGED <<decls, args, phase, i, resolved, errors, outcome>>
AddParam == /\ Family = "sig" /\ phase = "gen" /\ Len(sig.params) < MaxParams
            /\ \E ty \in ParamTypes, m \in BOOLEAN :
                  sig' = [sig EXCEPT !.params = Append(@, Param(Names[Len(sig.params) + 1], m, ty))]
            /\ UNCHANGED <<decls, args, phase, i, resolved, errors, outcome>>

\* ---- family "call": choose a signature and a call, then run the resolution
SigsWith(n, tys) == {Sig(r, ps) : r \in (IF n >= 2 THEN {None, Some("INTEGER")} ELSE {None, Some("INTEGER"), Some("REAL")}),
                                   ps \in {[k \in 1..n |-> Param(Names[k], ms[k], ts[k])] :
                                              ts \in [1..n -> tys], ms \in [1..n -> BOOLEAN]}}
CallSigs == {s \in SigsWith(0, ParamTypes) \cup SigsWith(1, ParamTypes) \cup SigsWith(2, ParamTypes2)
                    \cup (IF CallLevel >= 3 THEN SigsWith(3, ParamTypesS) ELSE {}) : ValidSig(s)}
NSlots(s) == Len(s.params) + (IF IsSome(s.ret) THEN 1 ELSE 0)
CallsFor(s) == LET n == NSlots(s)
                   alpha == CASE Len(s.params) = 3 -> ArgAlphabetS [] Len(s.params) = 2 -> ArgAlphabet2 [] OTHER -> ArgAlphabet IN
               [1..n -> alpha] \cup {SubSeq(Filler, 1, n + 1)} \cup (IF n > 0 THEN {SubSeq(Filler, 1, n - 1)} ELSE {})
GenCall == /\ Family = "call" /\ phase = "gen"
           /\ \E s \in CallSigs : \E as \in CallsFor(s) : StartCall(s, Decls, as)

Next == SetRet \/ AddParam \/ GenCall \/ RunNext
Spec == Init /\ [][Next]_vars

\* C31 first sentence, in every state of the "sig" family
RoundTrip == ValidSig(sig) => RoundTripOf(sig)
\* the parser never accepts a token list that prints differently (canonical form), on the near-miss inputs
DeletionSeq(toks) == [n \in DOMAIN toks |-> SubSeq(toks, 1, n - 1) \o SubSeq(toks, n + 1, Len(toks))]
SwapSeq(toks) == [n \in 1..(Len(toks) - 1) |-> [toks EXCEPT ![n] = toks[n + 1], ![n + 1] = toks[n]]]
\* degenerate token lists, attached to the return-only signatures: nothing, "()", "T ()", "T T", "( , )"
Degenerate(s) == IF s.params # <<>> THEN <<>>
                 ELSE << <<>>, <<TP("LParen"), TP("RParen")>>,
                         <<TDataType(s.ret.some), TP("LParen"), TP("RParen")>>,
                         <<TDataType(s.ret.some), TDataType(s.ret.some)>>,
                         <<TP("LParen"), TP("Comma"), TP("RParen")>> >>
MutantSeq(s) == DeletionSeq(PrintSig(s)) \o SwapSeq(PrintSig(s)) \o Degenerate(s)
ParseCanonical == (Family = "sig" /\ ValidSig(sig) /\ Len(sig.params) <= MutantParams) =>
   \A n \in DOMAIN MutantSeq(sig) :
       LET m == MutantSeq(sig)[n] r == ParseSig(m) IN
       IsOk(r) => (ValidSig(r.ok) /\ ParseSig(PrintSig(r.ok)) = r /\ (PrintSig(r.ok) = m \/ r.ok.params = <<>>))

EmitSig == (Family = "sig" /\ ValidSig(sig)) =>
  PrintT(<<"CASE", ToJson([kind |-> "sig", sig |-> sig, tokens |-> PrintSig(sig),
                           mutants |-> IF Len(sig.params) <= MutantParams
                                       THEN LET ms == MutantSeq(sig) IN
                                            [n \in DOMAIN ms |-> [tokens |-> ms[n], parse |-> ParseSig(ms[n])]]
                                       ELSE <<>>])>>)
EmitCall == (Family = "call" /\ Done) =>
  PrintT(<<"CASE", ToJson([kind |-> "call", sig |-> sig, decls |-> decls, args |-> args,
                           resolves |-> Resolves(args, sig, decls), outcome |-> outcome])>>)
=============================================================================
