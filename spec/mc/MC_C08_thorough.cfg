SPECIFICATION MCSpec
CONSTANT Prop = "C08"
CONSTANT Tier = "thorough"
CONSTANT Deviations = {}
INVARIANT FirstInsertionOrder
INVARIANT NoDuplicateKeys
INVARIANT LastValueWins
INVARIANT Segmented
INVARIANT HashIndependent
INVARIANT Deterministic
INVARIANT ViewsAgree
INVARIANT BodyOrder
INVARIANT Rebuild
INVARIANT UsedExact
INVARIANT EqByContent
INVARIANT EqSound
INVARIANT ConcatLaw
INVARIANT ConcatIdentity
INVARIANT Emit
PROPERTY ReplaceInPlace
CHECK_DEADLOCK FALSE
