SPECIFICATION Spec
CONSTANT MaxLen = 4
CONSTANT Alpha = "rf4"
INVARIANT WellFormed
INVARIANT Forward
INVARIANT Connected
INVARIANT ConflictsOrdered
INVARIANT MemEdgesJustified
INVARIANT NoMemEdgeWithoutConflict
INVARIANT FrameOrdered
INVARIANT FrameEdgesJustified
INVARIANT MemCellsExact
INVARIANT FrameCellsExact
INVARIANT TrailingExact
INVARIANT NoSelfLoop
INVARIANT ErrExact
INVARIANT SummariesSane
INVARIANT Emit
CHECK_DEADLOCK FALSE
