SPECIFICATION Spec
CONSTANT MaxDepth = 8
CONSTANT AsBuiltRemove = FALSE
CONSTANT Families = {"struct", "mkinds", "params2"}
CONSTANT StructGates = {"X", "W", "Z"}
CONSTANT StructDeclare = TRUE
CONSTANT StructW2 = TRUE
CONSTANT Wide = FALSE
CONSTANT MapModes = {TRUE}
CONSTANT AllowUnboundedGrowth = FALSE
CONSTRAINT DepthConstraint
INVARIANT MapWellFormed
INVARIANT FrameEntriesTile
INVARIANT MapTilesPrefix
INVARIANT Refines
INVARIANT DepthBelowBound
INVARIANT Emit
CHECK_DEADLOCK FALSE
