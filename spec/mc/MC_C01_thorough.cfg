SPECIFICATION Spec
CONSTANT MaxAny = 2
CONSTANT MaxOps = 2
CONSTANT Budget = 1
CONSTANT Deviations = {}
INVARIANT Total
INVARIANT Consistent
INVARIANT TemplatesParse
INVARIANT Emit
CHECK_DEADLOCK FALSE
