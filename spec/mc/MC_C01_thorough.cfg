SPECIFICATION Spec
CONSTANT MaxAny = 3
CONSTANT MaxOps = 3
CONSTANT Budget = 2
CONSTANT Deviations = {}
INVARIANT Total
INVARIANT Consistent
INVARIANT TemplatesParse
INVARIANT Emit
CHECK_DEADLOCK FALSE
