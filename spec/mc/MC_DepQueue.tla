---------------------------- MODULE MC_DepQueue ----------------------------
(* Bounded exploration of one DependencyQueue cell: every access sequence of length <= MaxLen, for both
   instances.  A node performs one or two consecutive accesses (as an instruction that reads and writes the
   same region does in ScheduledBasicBlock::build), so the next access is by the current node or a new one. *)
EXTENDS DepQueueRun, Json
CONSTANTS MaxLen, Instances

Init == \E i \in Instances : QInit(i)
LastNode == IF hist = <<>> THEN 0 ELSE hist[Len(hist)].n
Grow == /\ Len(hist) < MaxLen
        /\ \E node \in {LastNode, LastNode + 1} \ {0} : \E kind \in KindsOf(inst) : Record(node, kind)
Finish == qphase = "run" /\ TakePending
Next == Grow \/ Finish
Spec == Init /\ [][Next]_qvars

Emit == qphase = "done" =>
          PrintT(<<"CASE", ToJson([inst |-> inst, hist |-> hist, pending |-> pending])>>)
=============================================================================
