SPECIFICATION Spec
CONSTANT WithDeclare = TRUE
CONSTANT MagTable <- Mags
CONSTANT CallImmediatePlain = FALSE
CONSTANT JudgeAmbiguousDelay = FALSE
INVARIANT LexedAsWritten
INVARIANT NamePreserved
INVARIANT ReservedIsNotARegion
INVARIANT KeywordsAreCaseSensitive
INVARIANT Emit
CHECK_DEADLOCK FALSE
