SPECIFICATION Spec
CONSTANT MaxLen = 3
CONSTANT Sel = "cal"
CONSTANT AnyTopo = TRUE
INVARIANT EachOnce
INVARIANT Documented
INVARIANT Asap
INVARIANT FrameExclusive
INVARIANT DurationIsMaxEnd
INVARIANT SpansCover
INVARIANT ErrExact
INVARIANT FlatExact
INVARIANT MappingExact
INVARIANT Forward
INVARIANT EdgesJustified
INVARIANT ConflictsLinked
INVARIANT AsapGraph
INVARIANT CellMeaning
INVARIANT Deterministic
INVARIANT Emit
CHECK_DEADLOCK FALSE
