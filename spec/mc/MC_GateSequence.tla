-------------------------- MODULE MC_GateSequence --------------------------
(* Bounded exploration of GateSequence.  The definition table is grown one definition at a time, then
   a filter and a body are chosen (all by Next actions, so that the TLC workers share the enumeration),
   then the keep loop and the expansion stack machine run.

   Three families (CONSTANT Family), each exhaustive within its alphabet:

   "graph"  three sequence definitions SA, SB, SC, each (%t) a, with every body of 1..Width[n] elements
            over {RZ(%t) a, SA(%t) a, SB(%t+1) a, SC(2*%t) a}: every reference graph on three nodes with
            out-degree <= 2 (nesting, diamonds, cycles of length 1, 2 and 3, definitions reachable only
            through selected / unselected ones) x all 8 filters.  By the symmetry of the names it is enough
            to invoke SA (BodyLevel 2, thorough tier: also bodies with two or three instructions, for the
            tables whose third definition has one element).

   "subst"  SA(%t) a with 1..2 elements, SB a b (no parameter, two formal qubits, deliberately written
            b-before-a in its elements) with 1 element, and the matrix definition MG; elements and body
            instructions include every misuse: parameter-count and qubit-count mismatches, modifiers on a
            sequence gate (inner and outer), a non-fixed qubit argument, self-reference, plus modifiers on
            base gates, an undefined gate name, a non-sequence definition and a non-gate instruction, which
            must all pass through untouched.  x all 8 filters over {SA, SB, MG} (quick tier: see FilterLevel).

   "edge"   degenerate sizes.  SE a with an EMPTY body or one base gate; ST(%t, %s) a b (two parameters, two
            formal qubits) with 0..W2 elements over {SE a, SE b, RZ(%s) b, CPHASE(%t-%s) b a}; SU a with
            0..W3 elements over {SE a, ST(3, 4) a a, SU a, H a}: definitions whose expansion is empty
            directly (SE), only transitively (a body of nothing but empty sequences) or partly; x all 8
            filters x bodies in which the invocation is the only / first / last instruction, two invocations
            are consecutive, and the body with no instruction at all.  (Empty bodies cannot be written in
            Quil text; they are built through DefGateSequence::try_new(qubits, vec![]).)
            The graph family (third definition) and the subst family (SB) also include the empty body.

   Sizes covered across the families: definition bodies of 0 / 1 / 2 elements; 0 / 1 / 2 parameters; 1 / 2
   formal qubits (0 is rejected by DefGateSequence::try_new); program bodies of 0 / 1 / 2 / 3 instructions.

   Excluded by construction (not meaningful input of the property): definitions with duplicate formal
   names, element gates on fixed qubits (rejected by DefGateSequence::try_new), gates without qubits
   (rejected by Gate::new). *)
EXTENDS GateSequence, Json
CONSTANTS Family,      \* "graph" | "subst" | "edge"
          W1, W2, W3,  \* max number of elements of the 1st, 2nd, 3rd definition (W3 unused in "subst")
          BodyLevel,   \* 1: the basic bodies, 2: more
          FilterLevel  \* 2: all 8 filters for every table; 1: all 8 filters when the first definition has one
                       \*    element, {everything selected, only the first definition selected} when it has two

Width == <<W1, W2, W3>>
qa == QVar("a")
qb == QVar("b")
pt == Var("t")
Q(n) == Fixed(n)
N(v) == Num(v)

SeqsUpTo(S, k) == UNION {[1..m -> S] : m \in 1..k}
SeqsFrom0(S, k) == {<<>>} \cup SeqsUpTo(S, k)

\* ---- family "graph"
GElems == {Gate("RZ", <<pt>>, <<qa>>, <<>>), Gate("SA", <<pt>>, <<qa>>, <<>>),
           Gate("SB", <<Inf("+", pt, N("1"))>>, <<qa>>, <<>>), Gate("SC", <<Inf("*", N("2"), pt)>>, <<qa>>, <<>>)}
GNames == <<"SA", "SB", "SC">>
\* the third definition may also be empty
GDefChoices(n) == {SeqDef(GNames[n], <<"t">>, <<"a">>, gs) :
                      gs \in (IF n = 3 THEN SeqsFrom0(GElems, Width[n]) ELSE SeqsUpTo(GElems, Width[n]))}
GBasic == {<<Gate("SA", <<N("3")>>, <<Q(0)>>, <<>>)>>}
GMore  == {<<Gate("X", <<>>, <<Q(0)>>, <<>>), Gate("SB", <<N("3")>>, <<Q(1)>>, <<>>),
             Gate("SA", <<N("4")>>, <<Q(0)>>, <<>>)>>,
           <<Gate("SC", <<N("5")>>, <<Q(2)>>, <<>>), Other("NOP")>>}
\* BodyLevel 2: the longer bodies for the tables whose third definition has one element
GBodies(ds) == GBasic \cup (IF BodyLevel >= 2 /\ Len(ds[3].gates) = 1 THEN GMore ELSE {})
GFilterNames == {"SA", "SB", "SC"}

\* ---- family "subst"
SAElems == {Gate("RZ", <<pt>>, <<qa>>, <<>>),                                  \* parameter substituted
            Gate("RX", <<Inf("+", pt, N("1"))>>, <<qa>>, <<"DAGGER">>),        \* inside an expression; modifier on a base gate kept
            Gate("SB", <<>>, <<qa, qa>>, <<>>),                                \* proper nested invocation
            Gate("SA", <<pt>>, <<qa>>, <<>>),                                  \* cycle of length 1
            Gate("SB", <<>>, <<qa>>, <<>>),                                   \* inner qubit-count mismatch
            Gate("SB", <<pt>>, <<qa, qa>>, <<>>),                               \* inner parameter-count mismatch
            Gate("SB", <<>>, <<qa, qa>>, <<"DAGGER">>),                        \* modifier on an inner sequence gate
            Gate("MG", <<>>, <<qa>>, <<>>)}                                   \* non-sequence definition
SBElems == {Gate("CNOT", <<>>, <<qb, qa>>, <<>>),                              \* formals permuted
            Gate("SA", <<N("1")>>, <<qb>>, <<>>),                             \* nested, second formal
            Gate("SA", <<>>, <<qa>>, <<>>),                                   \* inner parameter-count mismatch
            Gate("SA", <<N("1")>>, <<qa, qb>>, <<>>),                          \* inner qubit-count mismatch
            Gate("SA", <<N("1")>>, <<qa>>, <<"CONTROLLED">>),                 \* modifier on an inner sequence gate
            Gate("SB", <<>>, <<qb, qa>>, <<>>),                                \* cycle of length 1, swapped
            Gate("UG", <<N("7")>>, <<qa, qb>>, <<>>)}                          \* undefined name: a base gate
SDefChoices(n) ==
  CASE n = 1 -> {SeqDef("SA", <<"t">>, <<"a">>, gs) : gs \in SeqsUpTo(SAElems, Width[1])}
    [] n = 2 -> {SeqDef("SB", <<>>, <<"a", "b">>, gs) : gs \in SeqsFrom0(SBElems, Width[2])}
    [] n = 3 -> {OtherDef("MG", <<>>)}
SSingles == {Gate("SA", <<N("3")>>, <<Q(0)>>, <<>>),
             Gate("SB", <<>>, <<Q(0), Q(1)>>, <<>>),
             Gate("SA", <<>>, <<Q(0)>>, <<>>),                               \* parameter-count mismatch
             Gate("SA", <<N("3")>>, <<Q(0), Q(1)>>, <<>>),                   \* qubit-count mismatch
             Gate("SB", <<>>, <<QVar("q"), Q(1)>>, <<>>),                    \* non-fixed qubit
             Gate("SA", <<N("3")>>, <<Q(0)>>, <<"DAGGER">>),                 \* modifier on a sequence gate
             Gate("MG", <<>>, <<Q(0)>>, <<>>),
             Gate("X", <<>>, <<Q(0)>>, <<"CONTROLLED">>) }
SFirst  == {Gate("X", <<>>, <<Q(2)>>, <<>>), Gate("SA", <<N("3")>>, <<Q(0)>>, <<>>),
            Gate("SB", <<>>, <<Q(1), Q(0)>>, <<>>), Other("NOP")}
SSecond == {Gate("SA", <<Neg(N("4"))>>, <<Q(1)>>, <<>>), Gate("SB", <<>>, <<Q(0), Q(1)>>, <<>>),
            Gate("SA", <<>>, <<Q(0)>>, <<>>)}
SBodies == {<<x>> : x \in SSingles}
           \cup (IF BodyLevel >= 2 THEN {<<x, y>> : x \in SFirst, y \in SSecond}
                 ELSE {<<Gate("X", <<>>, <<Q(2)>>, <<>>), Gate("SB", <<>>, <<Q(1), Q(0)>>, <<>>),
                         Gate("SA", <<Neg(N("4"))>>, <<Q(1)>>, <<>>)>>,
                       <<Gate("SA", <<N("3")>>, <<Q(0)>>, <<>>), Other("NOP"), Gate("SA", <<>>, <<Q(0)>>, <<>>)>>})
SFilterNames == {"SA", "SB", "MG"}

\* ---- family "edge"
ps == Var("s")
ETElems == {Gate("SE", <<>>, <<qa>>, <<>>), Gate("SE", <<>>, <<qb>>, <<>>),
            Gate("RZ", <<ps>>, <<qb>>, <<>>), Gate("CPHASE", <<Inf("-", pt, ps)>>, <<qb, qa>>, <<>>)}
EUElems == {Gate("SE", <<>>, <<qa>>, <<>>), Gate("ST", <<N("3"), N("4")>>, <<qa, qa>>, <<>>),
            Gate("SU", <<>>, <<qa>>, <<>>), Gate("H", <<>>, <<qa>>, <<>>)}
EDefChoices(n) ==
  CASE n = 1 -> {SeqDef("SE", <<>>, <<"a">>, gs) : gs \in {<<>>, <<Gate("H", <<>>, <<qa>>, <<>>)>>}}
    [] n = 2 -> {SeqDef("ST", <<"t", "s">>, <<"a", "b">>, gs) : gs \in SeqsFrom0(ETElems, Width[2])}
    [] n = 3 -> {SeqDef("SU", <<>>, <<"a">>, gs) : gs \in SeqsFrom0(EUElems, Width[3])}
ESE(q) == Gate("SE", <<>>, <<Q(q)>>, <<>>)
ESU(q) == Gate("SU", <<>>, <<Q(q)>>, <<>>)
EST(q, r) == Gate("ST", <<N("5"), N("6")>>, <<Q(q), Q(r)>>, <<>>)
EX(q) == Gate("X", <<>>, <<Q(q)>>, <<>>)
EBodies == {<<>>, <<ESE(0)>>, <<ESU(2)>>, <<EST(0, 1)>>,              \* no instruction; the only instruction
            <<ESE(0), EX(1)>>, <<EX(1), ESE(0)>>,                      \* first; last
            <<ESE(0), ESU(1)>>,                                        \* two consecutive invocations
            <<ESU(1), EST(1, 0), ESE(2)>>}                             \* three consecutive, the last one empty
EFilterNames == {"SE", "ST", "SU"}

NDefs == 3
DefChoices(n) == CASE Family = "graph" -> GDefChoices(n) [] Family = "subst" -> SDefChoices(n) [] Family = "edge" -> EDefChoices(n)
Bodies == CASE Family = "graph" -> GBodies(defs) [] Family = "subst" -> SBodies [] Family = "edge" -> EBodies
FilterNames == CASE Family = "graph" -> GFilterNames [] Family = "subst" -> SFilterNames [] Family = "edge" -> EFilterNames

FilterChoices == IF FilterLevel >= 2 \/ Len(defs[1].gates) < 2 THEN SUBSET FilterNames
                 ELSE {FilterNames, {defs[1].name}}

Init == /\ defs = <<>> /\ filter = {} /\ body = <<>> /\ phase = "gen"
        /\ ksrc = <<>> /\ kreach = {} /\ kept = None /\ frames = <<>> /\ estack = <<>> /\ result = None
GenDef == /\ phase = "gen" /\ Len(defs) < NDefs
          /\ \E d \in DefChoices(Len(defs) + 1) : defs' = Append(defs, d)
          /\ UNCHANGED <<filter, body, phase, ksrc, kreach, kept, frames, estack, result>>
GenInput == /\ phase = "gen" /\ Len(defs) = NDefs
            /\ \E f \in FilterChoices, bd \in Bodies : Start(defs, f, bd)
Next == GenDef \/ GenInput \/ RunNext
Spec == Init /\ [][Next]_vars

\* invariants that only make sense after the generator phase
GenStackDiscipline == phase # "gen" => StackDiscipline
GenDepthBounded == phase # "gen" => DepthBounded

FilterSeq == LET isIn(n) == n \in filter IN SelectSeq(<<"MG", "SA", "SB", "SC", "SE", "ST", "SU">>, isIn)
SetToSeq(S) == LET isIn(n) == n \in S IN
               SelectSeq(<<"Cyclic", "GateModifiersUnsupported", "NonFixedQubitArgument", "ParameterCount", "QubitCount">>, isIn)

\* one line per explored behaviour: input + expected observables
Emit == Done =>
  PrintT(<<"CASE", ToJson([defs |-> defs, filter |-> FilterSeq, body |-> body,
                           res |-> IF IsOk(result)
                                   THEN [ok |-> [out |-> result.ok.out, map |-> result.ok.map, kept |-> kept.some]]
                                   ELSE [err |-> result.err, conds |-> SetToSeq(Want.err)]])>>)
=============================================================================
