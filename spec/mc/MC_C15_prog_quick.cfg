SPECIFICATION Spec
CONSTANT Ns = {2}
CONSTANT AllGates = {}
CONSTANT DeepGates = {"H", "CNOT", "RX"}
CONSTANT ShallowDepth = 0
CONSTANT MaxDepth = 1
CONSTANT MaxProg = 2
INVARIANT CurWellFormed
INVARIANT ProgUnitary
INVARIANT ProgDaggerAdjoint
INVARIANT ProgDaggerShape
INVARIANT Emit
CHECK_DEADLOCK FALSE
