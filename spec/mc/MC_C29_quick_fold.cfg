SPECIFICATION Spec
CONSTANT MaxK = 4
CONSTANT StepwiseFold = TRUE
CONSTANT MaxLen = 3
CONSTANT NQ = 4
CONSTANT MaxArity = 4
CONSTANT WithUnsupported = FALSE
CONSTANT Canonical = TRUE
INVARIANT LastExact
INVARIANT LoopEdges
INVARIANT LoopIsFold
INVARIANT PathFoldMax
INVARIANT DPIsChains
INVARIANT FoldIsWalk
INVARIANT Antitone
INVARIANT FailsExact
CHECK_DEADLOCK FALSE
