INIT Init
NEXT Next
CONSTANT D = 1
CONSTANT MagTable <- Mags
CONSTANT CallImmediatePlain = FALSE
CONSTANT JudgeAmbiguousDelay = FALSE
INVARIANT ExprRoundTrip
INVARIANT ExprLexStable
INVARIANT CanonKeepsValue
INVARIANT CanonNormal
INVARIANT SecondPrintSame
CHECK_DEADLOCK FALSE
