---------------------------- MODULE MC_CalExpand ----------------------------
(* Bounded exploration of CalExpand / SourceMap (C17, C18, C19).

   A program is drawn dimension by dimension (one Pick action per dimension, so that all TLC workers
   share the enumeration): each family below is a sequence of small sets of alternatives (a body
   instruction, "no instruction", a qubit, a program body ...) and an Assemble operator, then the
   expansion machine runs.  One CASE line per program (terminal state).

   Families
     struct   DEFCAL X 0 / Y 0 / W 0 with bodies of <= 2 elements over calls of each other, a leaf
              gate and DECLARE: every nesting / recursion / hoisting shape of depth <= 3
     gkinds   DEFCAL G(%t) <two qubits>: one or two instructions of *every* kind that carries qubits,
              expressions or memory references, optionally through a second level DEFCAL Z(%t) q r
     mkinds   DEFCAL MEASURE <q> [addr]: the same for measurement calibrations (qubit variable,
              target name in CAPTURE / RAW-CAPTURE / PRAGMA LOAD-MEMORY, other memory references)
     param    DEFCAL RX(%t) ..: bodies that pass the parameter on, re-invoke RX / RY with the same or
              a grown parameter (%t+1), literal calibrations RX(1) / RX(2) before or after
     params2  DEFCAL F(<two parameters>) q: literal and variable parameters in every order, bodies using
              each variable and passing both on (also swapped) to two-parameter calibrations Z
     mrec     recursion through measurement calibrations: direct, mutual (fixed / variable qubit, named /
              unnamed), gate -> measure -> gate, and same-kind chains that end; for record and for effect

   Exclusions (written here because they restrict the quantifier):
     * programs whose expansion nests deeper than MaxDepth are not generated unless
       AllowUnboundedGrowth (known finding calibration-parameter-growth: with a parameter that grows on
       every expansion no instruction repeats, and the real expansion overflows the stack)
     * in measurement calibrations the target name occurs only where the statement says it is
       replaced (CAPTURE / RAW-CAPTURE memory reference, PRAGMA LOAD-MEMORY data)
     * no placeholder qubits; a calibration does not bind one variable name twice              *)
EXTENDS SourceMap, Json
CONSTANTS Families,              \* subset of {"struct", "gkinds", "mkinds", "param", "params2", "mrec"}
          StructGates,           \* gates callable from struct bodies, subset of {"X", "Y", "W", "Z"}
          StructDeclare,         \* TRUE: struct bodies may contain DECLARE a
          StructW2,              \* TRUE: DEFCAL W 0 may have two body elements (else one)
          Wide,                  \* TRUE: the wider alternatives of each family (thorough tier)
          MapModes,              \* subset of BOOLEAN: expand with / without source map
          AllowUnboundedGrowth   \* deviation switch (finding 24); FALSE in shipped configurations

Q(n) == Fixed(n)
Qq == QVar("q")  Qr == QVar("r")
T == EVar("t")

DefCal(name, params, qubits, body) ==
  [k |-> "DefCal", name |-> name, mods |-> <<>>, params |-> params, qubits |-> qubits, body |-> body]
DefMeas(name, qubit, target, body) ==
  [k |-> "DefCalMeasure", name |-> name, qubit |-> qubit, target |-> target, body |-> body]

NoI == [k |-> "NoInstr"]                      \* "no second body element"
Opt2(a, b) == IF b = NoI THEN <<a>> ELSE <<a, b>>

\* A family is a sequence of small *dimensions* (Dim(f, n), n = 1..NDims(f)); a program is one choice per
\* dimension, put together by Assemble.  (Small dimensions keep the generator cheap: TLC re-evaluates the
\* set of alternatives in every generator state.)

\* ------------------------------------------------------------------ struct
G0(n) == Gate(n, <<>>, <<>>, <<Q(0)>>)
StructElems == {G0(n) : n \in StructGates} \cup (IF StructDeclare THEN {Declare("a")} ELSE {})
StructSrcs == {<<G0("Y")>>, <<G0("Z"), G0("Y")>>} \cup (IF Wide THEN {<<G0("Y"), G0("Z")>>} ELSE {})
StructDim(n) == CASE n \in {1, 3, 5} -> StructElems
                  [] n \in {2, 4} -> StructElems \cup {NoI}
                  [] n = 6 -> IF StructW2 THEN StructElems \cup {NoI} ELSE {NoI}
                  [] n = 7 -> StructSrcs
StructAssemble(p) ==
  [g |-> << DefCal("X", <<>>, <<Q(0)>>, Opt2(p[1], p[2])), DefCal("Y", <<>>, <<Q(0)>>, Opt2(p[3], p[4])),
            DefCal("W", <<>>, <<Q(0)>>, Opt2(p[5], p[6])) >>,
   mm |-> <<>>, b |-> p[7]]

\* ------------------------------------------------------------------ gkinds
\* every instruction kind, over two qubits and one expression
Kinds(a, b, e) ==
  { Gate("Z", <<>>, <<e>>, <<a, b>>), Gate("U", <<"DAGGER", "CONTROLLED">>, <<e, EInt(1)>>, <<b, a>>),
    Measure("", a, Some(MRef("ro", 1))), Measure("", b, None), ResetQ(<<a>>), ResetQ(<<>>),
    Delay(<<a, b>>, e), Fence(<<b, a>>), Pulse(<<a>>, "rf", e), Capture(<<b>>, "ro", e, MRef("ro", 1)),
    RawCapture(<<a>>, "ro", e, MRef("ro", 0)),
    FrameOp("SetFrequency", <<a>>, "rf", e), FrameOp("SetPhase", <<b>>, "rf", e),
    FrameOp("SetScale", <<a>>, "rf", e), FrameOp("ShiftFrequency", <<b>>, "rf", e),
    FrameOp("ShiftPhase", <<a>>, "rf", ENeg(e)), SwapPhases(a, b, "rf"),
    Declare("a"), Pragma("foo", ""), Nop, Move(MRef("other", 0)) }
KindsFew(a, b, e) == { Gate("Z", <<>>, <<EPlus1(e)>>, <<b, a>>), Declare("a"), Nop }
ZKinds(a, b, e) ==
  { Measure("", a, Some(MRef("ro", 1))), ResetQ(<<b>>), Delay(<<a, b>>, e), Capture(<<b>>, "ro", e, MRef("ro", 1)),
    FrameOp("ShiftPhase", <<a>>, "rf", ENeg(e)), SwapPhases(a, b, "rf") }
GKindDim(n) == CASE n = 1 -> IF Wide THEN {T, EVar("u")} ELSE {T}             \* parameter of DEFCAL G
                 [] n = 2 -> { <<Qq, Qr>>, <<Qr, Qq>>, <<Q(0), Qr>> }         \* qubits of DEFCAL G
                 [] n = 3 -> Kinds(Qq, Qr, T)                                 \* first body instruction
                 [] n = 4 -> KindsFew(Qq, Qr, T) \cup {NoI}                   \* second body instruction
                 [] n = 5 -> (IF Wide THEN Kinds(Qq, Qr, T) ELSE ZKinds(Qq, Qr, T)) \cup {NoI}  \* body of DEFCAL Z(%t) q r, if any
                 [] n = 6 -> { <<Gate("G", <<>>, <<EPi2>>, <<Q(2), Q(3)>>)>>,
                               <<Gate("G", <<>>, <<EVar("x")>>, <<Q(0), Q(3)>>), Nop>> }
GKindAssemble(p) ==
  [g |-> <<DefCal("G", <<p[1]>>, p[2], Opt2(p[3], p[4]))>>
         \o (IF p[5] = NoI THEN <<>> ELSE <<DefCal("Z", <<T>>, <<Qq, Qr>>, <<p[5]>>)>>),
   mm |-> <<>>, b |-> p[6]]

\* ------------------------------------------------------------------ mkinds
MKinds(a) ==
  { Capture(<<a>>, "ro", EPi2, MRef("addr", 0)), Capture(<<a>>, "ro", EPi2, MRef("other", 0)),
    RawCapture(<<a>>, "ro", EInt(1), MRef("addr", 0)), RawCapture(<<a>>, "ro", EInt(1), MRef("other", 2)),
    Pragma("LOAD-MEMORY", "addr"), Pragma("LOAD-MEMORY", "other"), Pragma("foo", ""),
    ResetQ(<<a>>), Delay(<<a>>, EPi2), Fence(<<a>>), Pulse(<<a>>, "rf", EPi2),
    FrameOp("ShiftPhase", <<a>>, "rf", EPi2), SwapPhases(a, Q(7), "rf"),
    Gate("Z", <<>>, <<EInt(1)>>, <<a, Q(7)>>), Declare("a"), Nop, Move(MRef("other", 0)) }
MKindDim(n) == CASE n = 1 -> {Qq, Q(3)}                                       \* qubit of DEFCAL MEASURE
                 [] n = 2 -> {"addr", ""}                                     \* its target name
                 [] n = 3 -> MKinds(Qq)
                 [] n = 4 -> {Capture(<<Qq>>, "ro", EPi2, MRef("addr", 0)), Declare("a"), NoI}
                 [] n = 5 -> {Fence(<<Qr, Qq>>), Measure("", Qq, None), NoI}  \* body of DEFCAL Z(%t) q r, if any
                 [] n = 6 -> { <<Measure("", Q(3), Some(MRef("ro", 1)))>>, <<Measure("", Q(3), None)>>,
                               <<Measure("", Q(0), Some(MRef("ro", 1)))>> }
MKindAssemble(p) ==
  [g |-> IF p[5] = NoI THEN <<>> ELSE <<DefCal("Z", <<EInt(1)>>, <<Qq, Qr>>, <<p[5]>>)>>,
   mm |-> <<DefMeas("", p[1], p[2], Opt2(p[3], p[4]))>>, b |-> p[6]]

\* ------------------------------------------------------------------ param
RX(e, q) == Gate("RX", <<>>, <<e>>, <<q>>)
RY(e, q) == Gate("RY", <<>>, <<e>>, <<q>>)
Catchers == {0, 1, 2}                      \* 0: none; n: DEFCAL RX(n) 0: NOP
CatcherDef(n) == IF n = 0 THEN <<>> ELSE <<DefCal("RX", <<EInt(n)>>, <<Q(0)>>, <<Nop>>)>>
PElems(q) == { RX(T, Q(0)), RX(EPlus1(T), Q(0)), RY(T, q), RY(EPlus1(T), Q(0)),
               FrameOp("ShiftPhase", <<q>>, "rf", T), Nop }
S == EVar("s")
ParamDim(n) == CASE n = 1 -> IF Wide THEN Catchers ELSE {0, 2}                 \* literal calibration before ..
                 [] n = 2 -> {Q(0), Qq}                                        \* qubit of DEFCAL RX(%t)
                 [] n = 3 -> PElems(Qq)                                        \* (q is replaced by 0 if the head is fixed)
                 [] n = 4 -> IF Wide THEN PElems(Qq) \cup {NoI} ELSE {RX(EPlus1(T), Q(0)), RY(T, Qq), Nop, NoI}
                 [] n = 5 -> Catchers                                          \* .. or after DEFCAL RX(%t)
                 [] n = 6 -> {RX(S, Qq), RX(EPlus1(S), Q(0)), FrameOp("ShiftPhase", <<Qq>>, "rf", ENeg(S)), Nop, NoI}
                 [] n = 7 -> { <<RX(EInt(0), Q(0))>>, <<RX(EPi2, Q(1)), RX(EInt(0), Q(0))>> }
FixQ(i, hq) == IF hq = Qq THEN i ELSE [i EXCEPT !.qubits = [n \in DOMAIN i.qubits |-> IF i.qubits[n] = Qq THEN hq ELSE i.qubits[n]]]
ParamAssemble(p) ==
  [g |-> CatcherDef(p[1])
         \o <<DefCal("RX", <<T>>, <<p[2]>>, IF p[4] = NoI THEN <<FixQ(p[3], p[2])>> ELSE <<FixQ(p[3], p[2]), FixQ(p[4], p[2])>>)>>
         \o CatcherDef(p[5])
         \o (IF p[6] = NoI THEN <<>> ELSE <<DefCal("RY", <<S>>, <<Qq>>, <<p[6]>>)>>),
   mm |-> <<>>, b |-> p[7]]

\* ------------------------------------------------------------------ params2
\* calibrations with two parameters, literals and variables in every order; bodies use each variable,
\* also passed on in swapped order to a second two-parameter calibration; distinct argument values
U2 == EVar("u")
One == EInt(1)
P2Elems == { FrameOp("ShiftPhase", <<Qq>>, "rf", T), Delay(<<Qq>>, U2), Pulse(<<Qq>>, "rf", EPlus1(T)),
             Gate("Z", <<>>, <<T, U2>>, <<Qq>>), Gate("Z", <<>>, <<U2, T>>, <<Qq>>), Gate("Z", <<>>, <<One, T>>, <<Qq>>) }
P2Z(n) == CASE n = 1 -> <<DefCal("Z", <<T, U2>>, <<Qq>>, <<FrameOp("ShiftPhase", <<Qq>>, "rf", T), Delay(<<Qq>>, U2)>>)>>
            [] n = 2 -> <<DefCal("Z", <<U2, T>>, <<Qq>>, <<FrameOp("ShiftPhase", <<Qq>>, "rf", T), Delay(<<Qq>>, U2)>>)>>
            [] n = 3 -> <<DefCal("Z", <<One, T>>, <<Qq>>, <<FrameOp("ShiftPhase", <<Qq>>, "rf", T)>>),
                          DefCal("Z", <<T, One>>, <<Qq>>, <<Delay(<<Qq>>, T)>>)>>
            [] OTHER -> <<>>
Params2Dim(n) == CASE n = 1 -> { <<One, T>>, <<T, One>>, <<T, U2>>, <<U2, T>>, <<One, U2>> }   \* parameters of DEFCAL F
                   [] n = 2 -> P2Elems
                   [] n = 3 -> P2Elems \cup {NoI}
                   [] n = 4 -> {0, 1, 2, 3}                                              \* which DEFCAL Z(..) q
                   [] n = 5 -> { <<Gate("F", <<>>, <<One, EPi2>>, <<Q(0)>>)>>, <<Gate("F", <<>>, <<EPi2, One>>, <<Q(0)>>)>>,
                                 <<Gate("F", <<>>, <<EReal("0.25"), EPi2>>, <<Q(2)>>), Gate("F", <<>>, <<EPlus1(EInt(0)), EReal("0.25")>>, <<Q(0)>>)>> }
Params2Assemble(p) ==
  [g |-> <<DefCal("F", p[1], <<Qq>>, Opt2(p[2], p[3]))>> \o P2Z(p[4]), mm |-> <<>>, b |-> p[5]]

\* ------------------------------------------------------------------ mrec
\* recursion through measurement calibrations: direct, mutual (fixed / variable qubit, named / unnamed),
\* through a gate calibration, and same-kind chains that end.  rec = TRUE: measurements for record (the
\* calibration's target name is addr; the measurements written in bodies go to other[0], a memory
\* reference that "stays as written"), rec = FALSE: measurements for effect.
MM(rec, name, q) == Measure(name, q, IF rec THEN Some(MRef("other", 0)) ELSE None)
MSrc(rec, name, q) == Measure(name, q, IF rec THEN Some(MRef("ro", 1)) ELSE None)
Tg(rec) == IF rec THEN "addr" ELSE ""
MRecDim(n) == CASE n = 1 -> BOOLEAN                                              \* rec
                [] n = 2 -> {Q(0), Qq}                                           \* qubit of DEFCAL MEASURE (unnamed)
                [] n = 3 -> {"self", "named", "other-qubit", "gate", "nop"}      \* what its body does
                [] n = 4 -> {"none", "fixed-unnamed", "var-unnamed", "var-named", "var-gate", "fixed-nop"}  \* DEFCAL MEASURE!m
                [] n = 5 -> {"none", "unnamed", "named", "nop", "var"}           \* DEFCAL X
                [] n = 6 -> {1, 2, 3}                                            \* program body
MRecAssemble(p) ==
  LET rec == p[1]  qa == p[2]
      bodyA == CASE p[3] = "self"        -> <<MM(rec, "", qa)>>
                 [] p[3] = "named"       -> <<Nop, MM(rec, "m", qa)>>
                 [] p[3] = "other-qubit" -> <<MM(rec, "", Q(1)), Nop>>
                 [] p[3] = "gate"        -> <<G0("X")>>
                 [] p[3] = "nop"         -> <<Nop>>
      B == CASE p[4] = "none"          -> <<>>
             [] p[4] = "fixed-unnamed" -> <<DefMeas("m", Q(0), Tg(rec), <<MM(rec, "", Q(0))>>)>>
             [] p[4] = "var-unnamed"   -> <<DefMeas("m", Qq, Tg(rec), <<MM(rec, "", Qq)>>)>>
             [] p[4] = "var-named"     -> <<DefMeas("m", Qq, Tg(rec), <<MM(rec, "m", Qq)>>)>>
             [] p[4] = "var-gate"      -> <<DefMeas("m", Qq, Tg(rec), <<G0("X")>>)>>
             [] p[4] = "fixed-nop"     -> <<DefMeas("m", Q(0), Tg(rec), <<Nop>>)>>
      X == CASE p[5] = "none"    -> <<>>
             [] p[5] = "unnamed" -> <<DefCal("X", <<>>, <<Q(0)>>, <<MM(rec, "", Q(0))>>)>>
             [] p[5] = "named"   -> <<DefCal("X", <<>>, <<Q(0)>>, <<MM(rec, "m", Q(0)), Nop>>)>>
             [] p[5] = "nop"     -> <<DefCal("X", <<>>, <<Q(0)>>, <<Nop>>)>>
             [] p[5] = "var"     -> <<DefCal("X", <<>>, <<Qq>>, <<MM(rec, "", Qq)>>)>>
      b == CASE p[6] = 1 -> <<MSrc(rec, "", Q(0))>>
             [] p[6] = 2 -> <<G0("X")>>
             [] p[6] = 3 -> <<MSrc(rec, "", Q(1)), MSrc(rec, "m", Q(0))>>
  IN [g |-> X, mm |-> <<DefMeas("", qa, Tg(rec), bodyA)>> \o B, b |-> b]

NDims(f) == CASE f = "struct" -> 7 [] f = "gkinds" -> 6 [] f = "mkinds" -> 6 [] f = "param" -> 7
               [] f = "params2" -> 5 [] f = "mrec" -> 6
Dim(f, n) == CASE f = "struct" -> StructDim(n) [] f = "gkinds" -> GKindDim(n)
               [] f = "mkinds" -> MKindDim(n) [] f = "param" -> ParamDim(n)
               [] f = "params2" -> Params2Dim(n) [] f = "mrec" -> MRecDim(n)
Assemble(f, p) == CASE f = "struct" -> StructAssemble(p) [] f = "gkinds" -> GKindAssemble(p)
                    [] f = "mkinds" -> MKindAssemble(p) [] f = "param" -> ParamAssemble(p)
                    [] f = "params2" -> Params2Assemble(p) [] f = "mrec" -> MRecAssemble(p)

\* ------------------------------------------------------------------ generator
VARIABLES fam, picks, phase       \* phase: "gen" | "run"
vars == <<evars, fam, picks, phase>>

Init == /\ fam \in Families /\ picks = <<>> /\ phase = "gen"
        /\ gc = <<>> /\ mc = <<>> /\ src = <<>> /\ withMap \in MapModes /\ m = MInit

Pick == /\ phase = "gen" /\ Len(picks) < NDims(fam)
        /\ \E d \in Dim(fam, Len(picks) + 1) : picks' = Append(picks, d)
        /\ UNCHANGED <<evars, fam, phase>>

Start == /\ phase = "gen" /\ Len(picks) = NDims(fam)
         /\ LET prog == Assemble(fam, picks)
                \* the definitions go through CalibrationSet::replace: identical signatures collapse
                g == SetOfHistory(prog.g)
                mm == SetOfHistory(prog.mm) IN
            /\ AllowUnboundedGrowth \/ ExpandFix(g, mm, prog.b) # ResDeep
            /\ gc' = g /\ mc' = mm /\ src' = prog.b
         /\ phase' = "run"
         /\ UNCHANGED <<withMap, m, fam, picks>>

\* the machine's actions, one by one (so that TLC reports coverage per action)
Running  == phase = "run" /\ UNCHANGED <<fam, picks, phase>>
MCall     == Running /\ Call
MReject   == Running /\ Reject
MMatch    == Running /\ Match
MReturn   == Running /\ Return
MHoist    == Running /\ Hoist
MHoistEnd == Running /\ HoistEnd
MFinish   == Running /\ Finish
Next == Pick \/ Start \/ MCall \/ MReject \/ MMatch \/ MReturn \/ MHoist \/ MHoistEnd \/ MFinish
Spec == Init /\ [][Next]_vars
FairSpec == Spec /\ WF_vars(Next)       \* for the termination property of C18

DepthConstraint == Len(m.stack) <= MaxDepth

\* C18 as a temporal property of the whole exploration: every program that is generated is expanded to
\* the end ("done") or to the recursive-calibration error; a program the generator excludes (see the
\* header) stays in the last generator state.
Excluded == /\ phase = "gen" /\ Len(picks) = NDims(fam)
            /\ LET prog == Assemble(fam, picks) IN
               ~AllowUnboundedGrowth /\ ExpandFix(SetOfHistory(prog.g), SetOfHistory(prog.mm), prog.b) = ResDeep
EveryExpansionTerminates == <>(Terminal \/ Excluded)

\* ------------------------------------------------------------------ emitter
EmitMode == IF TRUE \in MapModes THEN TRUE ELSE FALSE
PerInstr == [n \in DOMAIN src |-> ExpandOne(gc, mc, src[n])]
Emit == (phase = "run" /\ Terminal /\ withMap = EmitMode) =>
          PrintT(<<"CASE", ToJson([fam |-> fam, gcals |-> gc, mcals |-> mc, src |-> src,
                                   status |-> m.status, out |-> m.out, decls |-> m.decls,
                                   map |-> m.map, per |-> PerInstr, depth |-> m.maxDepth,
                                   cycle |-> CycleReachable(gc, mc, src),
                                   hoisting |-> HoistingSources(gc, mc, src),
                                   expanded |-> \E n \in DOMAIN src : MatchIn(gc, mc, src[n]) # NoCal])>>)
=============================================================================
