--------------------------- MODULE MC_ExprSyntax ---------------------------
(* Bounded exploration of ExprSyntax: the tree is grown one constructor at a time (so that all TLC
   workers share the enumeration), and every tree met on the way is printed and parsed back.

   Depth-1 trees: every constructor over every pair of leaves.
   Depth-2 trees: a depth-1 tree wrapped once more; its sibling under an infix node is drawn from
                  the leaves (FullDepth2 = FALSE: every (parent, child-kind, position) printing context
                  of a depth-1 child next to every leaf) or from all depth-<=1 trees (FullDepth2 = TRUE). *)
EXTENDS ExprSyntax, Json
CONSTANTS LeafSet,      \* "tiny" | "small" | "full"
          FnSet,        \* "one" | "all"
          FullDepth2,   \* BOOLEAN
          MaxDepth

\* one leaf of every printing class: small integer, negative real, pure imaginary of either sign, two-part
\* literal of either sign of the imaginary part, pi, variable, address
SmallLeaves == { Num("2", "0"), Num("-1", "0"), Num("0", "2"), Num("0", "-2"), Num("1", "2"), Num("1", "-2"),
                 PiC, Var("x"), Addr("m", 0) }
FullLeaves == SmallLeaves \cup
              { Num("0", "0"), Num("1", "0"), Num("0.5", "0"), Num("0.0000001", "0"),
                Num("100000000000000000000", "0"), Num("-1", "2"), Num("-1.5", "-0.5"), Num("0", "0.0000001"),
                Var("y"), Addr("n", 1) }
TinyLeaves == { Num("2", "0"), Num("-1", "0"), Num("1", "2"), PiC, Var("x"), Addr("m", 0) }
Leaves == IF LeafSet = "tiny" THEN TinyLeaves ELSE IF LeafSet = "small" THEN SmallLeaves ELSE FullLeaves
Fns    == IF FnSet = "one" THEN {"sin"} ELSE Functions
Prefixes == {"neg", "pos"}

\* Leaves whose spelling collides - exactly or up to letter case - with a reserved word of the expression
\* grammar (the five functions, pi, i), in every form the unchanged parser round-trips (all of them do:
\* name[index] is tried before the reserved words, %name is a different token).  They decide which
\* alternative of parse_expression_identifier is tried first.  Plus the bare imaginary unit (2*1.0i vs 2.0i)
\* and a non-zero index.  These leaves enter only as the start of a tree (once per tree), with ordinary
\* leaves as siblings: every context of depth 1, and depth 2 under negation and a function call.
ReservedNames == {"sin", "Sin", "SIN", "cos", "cis", "exp", "sqrt", "pi", "PI", "Pi", "i", "I"}
ExtraLeaves == { Addr(nm, 0) : nm \in ReservedNames } \cup { Var(nm) : nm \in ReservedNames }
               \cup { Addr("exp", 1), Addr("Sin", 1), Addr("pi", 1), Addr("i", 1), Addr("m", 1), Num("0", "1") }
RECURSIVE HasExtra(_)
HasExtra(e) == CASE IsLeaf(e) -> e \in ExtraLeaves
                 [] e.t \in {"neg", "pos", "fn"} -> HasExtra(e.e)
                 [] e.t = "inf" -> HasExtra(e.l) \/ HasExtra(e.r)

D1 == Leaves \cup Wrap(Leaves, InfixOps, Fns, Prefixes)
Siblings(e) == IF Depth(e) = 0 THEN Leaves ELSE IF FullDepth2 THEN D1 ELSE Leaves

Init == \E e \in Leaves \cup ExtraLeaves : Fresh(e)
Grow == /\ phase = "gen" /\ Depth(tree) < MaxDepth
        /\ LET narrow == Depth(tree) > 0 /\ HasExtra(tree) IN
           \/ \E o \in InfixOps, b \in Siblings(tree) : ~narrow /\ tree' = Inf(tree, o, b)
           \/ \E o \in InfixOps, b \in Siblings(tree) : ~narrow /\ tree' = Inf(b, o, tree)
           \/ \E f \in Fns : (narrow => f = "sin") /\ tree' = Fn(f, tree)
           \/ \E p \in Prefixes : (narrow => p = "neg") /\ tree' = [t |-> p, e |-> tree]
        /\ UNCHANGED <<phase, pieces, result>>
Next == Grow \/ ToQuil \/ FromStr
Spec == Init /\ [][Next]_vars

\* one line per explored tree: the input and what the model expects the public calls to return
Emit == phase = "parsed" =>
          PrintT(<<"CASE", ToJson([tree |-> tree, text |-> TextOf(pieces),
                                   parsed |-> IF IsErr(result) THEN None ELSE Some(result.e)])>>)
=============================================================================
