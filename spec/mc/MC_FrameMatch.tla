--------------------------- MODULE MC_FrameMatch ---------------------------
(* Bounded exploration of FrameMatch: a set of defined frames is grown one frame at a time from a universe
   (qubit sequences over {0,1,2} of size 1-2, including the two orders of a pair, x names), then one
   frame-related instruction over the same universe is picked (naming defined and undefined frames), with every
   used-qubit set for a bare RESET.  Invariants: the condition-tree mechanism agrees with the rules of property
   C26, and the two set laws.                                                                              *)
EXTENDS FrameMatch, Json
CONSTANTS MaxFrames,     \* bound on the number of defined frames
          Wide           \* FALSE: 2 names x 5 qubit sequences; TRUE: 3 names x 7 qubit sequences

Names  == IF Wide THEN {"a", "b", "c"} ELSE {"a", "b"}
QSeqs  == IF Wide THEN {<<0>>, <<1>>, <<2>>, <<0, 1>>, <<1, 0>>, <<0, 2>>, <<1, 2>>}
          ELSE {<<0>>, <<1>>, <<0, 1>>, <<1, 0>>, <<1, 2>>}
Universe == {[name |-> n, qubits |-> q] : n \in Names, q \in QSeqs}
\* frames named by the update / swap instructions (a subset keeps the alphabet small)
Few == {[name |-> "a", qubits |-> <<0>>], [name |-> "b", qubits |-> <<0>>],
        [name |-> "a", qubits |-> <<0, 1>>], [name |-> "a", qubits |-> <<1, 0>>]}
Num == [t |-> "num"]
Flat == <<Num, Num>>
Ref0 == [name |-> "r", index |-> 0]

PlayAlphabet ==
    {[k |-> "Pulse", blocking |-> b, frame |-> f, wf |-> Flat] : b \in BOOLEAN, f \in Universe}
    \cup {[k |-> "Capture", blocking |-> b, frame |-> f, wf |-> Flat, mref |-> Ref0] : b \in BOOLEAN, f \in Universe}
    \cup {[k |-> "RawCapture", blocking |-> b, frame |-> f, duration |-> Num, mref |-> Ref0] : b \in BOOLEAN, f \in Universe}
UpdateAlphabet ==
    {[k |-> kind, frame |-> f, e |-> Num] : kind \in UpdateKinds, f \in Few}
    \cup {[k |-> "SwapPhases", frame_1 |-> f, frame_2 |-> g] : f \in Few, g \in Few}
QubitAlphabet ==
    {[k |-> "Fence", qubits |-> qs] : qs \in {<<>>, <<0>>, <<1>>, <<2>>, <<0, 1>>, <<1, 0>>, <<0, 2>>}}
    \cup {[k |-> "Delay", duration |-> Num, frame_names |-> ns, qubits |-> qs] :
            ns \in {<<>>, <<"a">>, <<"a", "b">>, <<"c">>}, qs \in {<<0>>, <<1>>, <<0, 1>>, <<1, 0>>, <<2>>}}
    \cup {[k |-> "Reset", qubit |-> Some(q)] : q \in 0..2}
BareReset == [k |-> "Reset", qubit |-> None]
OtherAlphabet == {[k |-> "Nop"], [k |-> "Move", dst |-> Ref0, src |-> [t |-> "int"]],
                  [k |-> "Gate", name |-> "X", params |-> <<>>, qubits |-> <<0>>]}

VARIABLES defined,   \* the frames defined in the program
          instr,     \* the instruction under test
          uq,        \* the program's used qubits
          phase      \* "frames" | "done"
vars == <<defined, instr, uq, phase>>

Init == defined = {} /\ instr = [k |-> "Nop"] /\ uq = {} /\ phase = "frames"
AddFrame == /\ phase = "frames" /\ Cardinality(defined) < MaxFrames
            /\ \E f \in Universe \ defined : defined' = defined \cup {f}
            /\ UNCHANGED <<instr, uq, phase>>
Pick(A) == /\ phase = "frames" /\ \E i \in A : instr' = i
           /\ uq' = {} /\ phase' = "done" /\ UNCHANGED defined
PickPlay   == phase = "frames" /\ Pick(PlayAlphabet)
PickUpdate == phase = "frames" /\ Pick(UpdateAlphabet)
PickQubits == phase = "frames" /\ Pick(QubitAlphabet)
PickOther  == phase = "frames" /\ Pick(OtherAlphabet)
PickBareReset == /\ phase = "frames" /\ instr' = BareReset
                 /\ \E qs \in SUBSET (0..2) : uq' = qs
                 /\ phase' = "done" /\ UNCHANGED defined
Next == AddFrame \/ PickPlay \/ PickUpdate \/ PickQubits \/ PickOther \/ PickBareReset
Spec == Init /\ [][Next]_vars

\* the mechanism (condition trees) agrees with the rules, which satisfy the set laws
Agrees == (phase = "done" /\ HasFrameSemantics(instr)) => AgreesOn(instr, defined, uq)
SetLaws == (phase = "done" /\ HasFrameSemantics(instr)) =>
              /\ UsedBy(instr, defined, uq) \cap BlockedBy(instr, defined, uq) = {}
              /\ UsedBy(instr, defined, uq) \cup BlockedBy(instr, defined, uq) \subseteq defined
NoneForOthers == (phase = "done" /\ ~HasFrameSemantics(instr)) => IsNone(Matching(instr, defined, uq))

\* expected observable: what the property demands
Want == IF HasFrameSemantics(instr)
        THEN Some([used |-> UsedBy(instr, defined, uq), blocked |-> BlockedBy(instr, defined, uq)])
        ELSE None
Emit == phase = "done" =>
          PrintT(<<"CASE", ToJson([frames |-> defined, uq |-> uq, instr |-> instr, want |-> Want])>>)
=============================================================================
