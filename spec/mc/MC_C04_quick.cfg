SPECIFICATION Spec
CONSTANT Family = "C04"
CONSTANT MaxLen = 1
CONSTANT Depth = 1
CONSTANT SmallLeaves = FALSE
CONSTANT MagTable <- Mags
CONSTANT CallImmediatePlain = FALSE
CONSTANT JudgeAmbiguousDelay = FALSE
INVARIANT InstrRoundTrip
INVARIANT InstrPrintStable
INVARIANT ParseNormalIsFixpoint
INVARIANT Placeholders
INVARIANT PlaceholdersProgram
INVARIANT ProgramOfValues
INVARIANT NoAmbiguousDelay
INVARIANT ProgramLevel
INVARIANT ListingFixpoint
INVARIANT GateParamValue
INVARIANT Emit
CHECK_DEADLOCK FALSE
