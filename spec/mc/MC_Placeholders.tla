-------------------------- MODULE MC_Placeholders --------------------------
(* Bounded exploration of Placeholders.  The body is grown one instruction at a time; then either the
   default resolution runs (ScanT .. Resolve) or a custom resolution with one of all partial maps over
   the placeholders of the body.

   Alphabet (DESIGN.md section 6 C34, widened): fixed qubits {0, 2, 3} (gaps), qubit placeholders 1..3, one
   variable qubit; nine fixed labels of the shape the default resolver generates (see FixedT), label
   placeholders 1, 2, 3 (base a, shared) and 4 (base b).  Beyond the exhaustive length bound, structured
   "set" bodies (PickSetT, PickSetQ) combine up to MaxSetT such labels / the fixed qubits {0, 2, 3, 7} with up
   to four label / MaxSetPh qubit placeholders.  Instruction classes: a gate-like instruction on 1 or 2 qubits
   ("Gate": the harness spells it as GATE / MEASURE / RESET / DELAY / FENCE / PULSE / CAPTURE / RAW-CAPTURE),
   a frame update on one qubit ("ShiftPhase": spelled as any of the SET- and SHIFT- instructions), SWAP-PHASES on two frames,
   one target-carrying class (spelled LABEL / JUMP / JUMP-WHEN / JUMP-UNLESS).
   Placeholders are interchangeable up to their base label, so only bodies are generated in which qubit
   placeholders are first mentioned in the order 1, 2, 3 and label placeholders 2 after 1, 3 after 2.
   Pure qubit bodies, pure label bodies and mixed bodies have separate length bounds: the two resolvers
   do not interact, a mixed body only adds positions.  Custom resolution is position-independent (one
   Resolve step per instruction), so it is explored for bodies up to MaxLenCustom only. *)
EXTENDS Placeholders, Json
CONSTANTS MaxLenQ, MaxLenT, MaxLenMixed, MaxLenCustom,
          MaxSetT,      \* "set" bodies: up to this many fixed labels of generated shape ...
          MaxSetPh      \* ... / fixed qubits with gaps, together with up to this many qubit placeholders

F(n) == Fixed(n)
P(n) == QPh(n)
\* fixed qubits with gaps (0, 2, 3; 7 in the set bodies): the free indices are 1, 4, 5, 6, 8, ...
Gate1 == {QInstr("Gate", <<x>>) : x \in {F(0), F(2), F(3), P(1), P(2), P(3), QVar("q")}}
Gate2 == {QInstr("Gate", <<x, y>>) : x, y \in {F(0), F(2), P(1), P(2)}} \ {QInstr("Gate", <<x, x>>) : x \in {F(0), F(2), P(1), P(2)}}
Upd   == {QInstr("ShiftPhase", <<x>>) : x \in {F(0), F(2), P(1), P(2)}}
Swap  == {QInstr("SwapPhases", <<x, y>>) : x, y \in {F(0), P(1), P(2)}} \ {QInstr("SwapPhases", <<F(0), F(0)>>), QInstr("SwapPhases", <<P(2), P(2)>>)}
QAlphabet == Gate1 \cup Gate2 \cup Upd \cup Swap

\* Fixed labels / jump targets that look like the names the default resolver generates for base "a" - with
\* holes (a_0, a_2, a_3 without a_1 are all reachable), a two-digit suffix, a zero-padded suffix, the base
\* itself, and a name that merely starts with the base - and one for base "b".  Three placeholders share
\* base "a", a fourth has base "b".  One target-carrying class ("Label"): whether a target sits in a LABEL,
\* JUMP, JUMP-WHEN or JUMP-UNLESS is decided by the harness spellings (each position gets every kind), so
\* names that only occur as jump targets are covered.
FixedT  == <<"a_0", "a_1", "a_2", "a_3", "a_10", "a_00", "a", "ax_0", "b_0">>
PhT(id) == TPh(id, IF id = 4 THEN "b" ELSE "a")
Targets == {TFixed(FixedT[m]) : m \in DOMAIN FixedT} \cup {PhT(id) : id \in 1..4}
TAlphabet == {TInstr("Label", t) : t \in Targets}

\* canonical introduction order of placeholders
RECURSIVE NewQPhs(_, _)
NewQPhs(seen, qs) == IF qs = <<>> THEN <<>>
                     ELSE LET q == Head(qs) IN
                          IF q.t = "ph" /\ q.id \notin seen THEN <<q.id>> \o NewQPhs(seen \cup {q.id}, Tail(qs))
                          ELSE NewQPhs(seen, Tail(qs))
CanonOK(b, i) ==
  IF IsT(i) THEN (i.target.t = "ph" /\ i.target.id \in {2, 3}) => (i.target.id - 1) \in TPhIds(b)
  ELSE LET seen == QPhIds(b)
           new  == NewQPhs(seen, i.qs)
       IN new = [m \in DOMAIN new |-> Cardinality(seen) + m]

AllQ(b) == \A m \in DOMAIN b : ~IsT(b[m])
AllT(b) == \A m \in DOMAIN b : IsT(b[m])
LenOK(b) == Len(b) <= (IF AllQ(b) THEN MaxLenQ ELSE IF AllT(b) THEN MaxLenT ELSE MaxLenMixed)

\* custom resolvers: fixed candidate values (two placeholders deliberately share a value, one collides with
\* a fixed name / qubit - a custom resolver may do that), every subset of the body's placeholders
CustomQ == [id \in 1..3 |-> CASE id = 1 -> 7 [] id = 2 -> 7 [] id = 3 -> 0]
CustomT == [id \in 1..4 |-> CASE id = 1 -> "x" [] id = 2 -> "a_0" [] id = 3 -> "x" [] id = 4 -> "a_1"]

Init == RunInit(<<>>, "default", EmptyFn, EmptyFn) /\ phase = "gen"
Grow == /\ phase = "gen"
        /\ \E i \in QAlphabet \cup TAlphabet :
              /\ CanonOK(body, i) /\ LenOK(Append(body, i))
              /\ body' = Append(body, i)
        /\ UNCHANGED <<mode, phase, pc, fixedLabels, labelPhs, tmap, usedQ, qubitPhs, cursor, qmap, result>>
StartDefault == /\ phase = "gen" /\ phase' = "scanT"
                /\ UNCHANGED <<body, mode, pc, fixedLabels, labelPhs, tmap, usedQ, qubitPhs, cursor, qmap, result>>
StartCustom == /\ phase = "gen" /\ Len(body) <= MaxLenCustom /\ phase' = "resolve" /\ mode' = "custom"
               /\ \E st \in SUBSET TPhIds(body) : \E sq \in SUBSET QPhIds(body) :
                     /\ tmap' = [id \in st |-> CustomT[id]] /\ qmap' = [id \in sq |-> CustomQ[id]]
               /\ UNCHANGED <<body, pc, fixedLabels, labelPhs, usedQ, qubitPhs, cursor, result>>
\* "Set" bodies, longer than the exhaustive bound but structured: a set of fixed labels (resp. fixed qubits)
\* and a run of placeholders, the fixed ones all before or all after the placeholders.
RECURSIVE IdSeq(_)
IdSeq(S) == IF S = {} THEN <<>> ELSE LET m == Min(S) IN <<m>> \o IdSeq(S \ {m})
PhRunsT == {<<1>>, <<1, 2>>, <<1, 2, 3>>, <<1, 2, 3, 4>>, <<4, 1, 2, 3>>, <<1, 2, 1, 3>>}
SetBodyT(S, run, after) ==
  LET ids == IdSeq(S)
      fx  == [m \in DOMAIN ids |-> TInstr("Label", TFixed(FixedT[ids[m]]))]
      ph  == [m \in DOMAIN run |-> TInstr("Label", PhT(run[m]))]
  IN IF after THEN ph \o fx ELSE fx \o ph
\* the fixed qubits sit in gate-like instructions, or only inside frames (frame updates)
SetBodyQ(S, k, after, inFrames) ==
  LET ids == IdSeq(S)
      fx  == [m \in DOMAIN ids |-> QInstr(IF inFrames THEN "ShiftPhase" ELSE "Gate", <<F(ids[m])>>)]
      ph  == [m \in 1..k |-> QInstr(IF inFrames /\ m = 2 THEN "Gate" ELSE IF m % 2 = 0 THEN "ShiftPhase" ELSE "Gate", <<P(m)>>)]
  IN IF after THEN ph \o fx ELSE fx \o ph
PickSetT == /\ phase = "gen" /\ body = <<>> /\ phase' = "scanT"
            /\ \E S \in {T \in SUBSET (DOMAIN FixedT) : Cardinality(T) \in 1..MaxSetT} :
               \E run \in PhRunsT : \E after \in BOOLEAN : body' = SetBodyT(S, run, after)
            /\ UNCHANGED <<mode, pc, fixedLabels, labelPhs, tmap, usedQ, qubitPhs, cursor, qmap, result>>
PickSetQ == /\ phase = "gen" /\ body = <<>> /\ phase' = "scanT"
            /\ \E S \in SUBSET {0, 2, 3, 7} : \E k \in 1..MaxSetPh : \E after \in BOOLEAN : \E fr \in BOOLEAN :
                  S # {} /\ body' = SetBodyQ(S, k, after, fr)
            /\ UNCHANGED <<mode, pc, fixedLabels, labelPhs, tmap, usedQ, qubitPhs, cursor, qmap, result>>
Next == Grow \/ StartDefault \/ StartCustom \/ PickSetT \/ PickSetQ \/ Run
Spec == Init /\ [][Next]_vars

Pairs(f) == LET ids == IdSeq(DOMAIN f) IN [m \in DOMAIN ids |-> [id |-> ids[m], v |-> f[ids[m]]]]
Emit == phase = "done" =>
          PrintT(<<"CASE", ToJson([body |-> body, mode |-> mode, tmap |-> Pairs(tmap), qmap |-> Pairs(qmap),
                                   result |-> result])>>)
=============================================================================
