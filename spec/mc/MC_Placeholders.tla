-------------------------- MODULE MC_Placeholders --------------------------
(* Bounded exploration of Placeholders.  The body is grown one instruction at a time; then either the
   default resolution runs (ScanT .. Resolve) or a custom resolution with one of all partial maps over
   the placeholders of the body.

   Alphabet (DESIGN.md section 6 C34): fixed qubits {0, 1, 3}, qubit placeholders 1..3, one variable qubit;
   fixed labels {a_0, a_1, b_0} (the names the default resolver would like to use), label placeholders
   1, 2 (base a, shared) and 3 (base b).  Instruction classes: a gate-like instruction on 1 or 2 qubits
   ("Gate": the harness spells it as GATE / MEASURE / RESET / DELAY / FENCE / PULSE / CAPTURE / RAW-CAPTURE),
   a frame update on one qubit ("ShiftPhase": spelled as any of the SET- and SHIFT- instructions), SWAP-PHASES on two frames,
   LABEL / JUMP / JUMP-WHEN (spelled JUMP-WHEN or JUMP-UNLESS).
   Placeholders are interchangeable up to their base label, so only bodies are generated in which qubit
   placeholders are first mentioned in the order 1, 2, 3 and label placeholder 2 after 1.
   Pure qubit bodies, pure label bodies and mixed bodies have separate length bounds: the two resolvers
   do not interact, a mixed body only adds positions.  Custom resolution is position-independent (one
   Resolve step per instruction), so it is explored for bodies up to MaxLenCustom only. *)
EXTENDS Placeholders, Json
CONSTANTS MaxLenQ, MaxLenT, MaxLenMixed, MaxLenCustom

F(n) == Fixed(n)
P(n) == QPh(n)
Gate1 == {QInstr("Gate", <<x>>) : x \in {F(0), F(1), F(3), P(1), P(2), P(3), QVar("q")}}
Gate2 == {QInstr("Gate", <<x, y>>) : x, y \in {F(0), F(1), P(1), P(2)}} \ {QInstr("Gate", <<x, x>>) : x \in {F(0), F(1), P(1), P(2)}}
Upd   == {QInstr("ShiftPhase", <<x>>) : x \in {F(0), F(1), P(1), P(2)}}
Swap  == {QInstr("SwapPhases", <<x, y>>) : x, y \in {F(0), P(1), P(2)}} \ {QInstr("SwapPhases", <<F(0), F(0)>>), QInstr("SwapPhases", <<P(2), P(2)>>)}
QAlphabet == Gate1 \cup Gate2 \cup Upd \cup Swap
Targets == {TFixed("a_0"), TFixed("a_1"), TFixed("b_0"), TPh(1, "a"), TPh(2, "a"), TPh(3, "b")}
TAlphabet == {TInstr(k, t) : k \in {"Label", "Jump", "JumpWhen"}, t \in Targets}

\* canonical introduction order of placeholders
RECURSIVE NewQPhs(_, _)
NewQPhs(seen, qs) == IF qs = <<>> THEN <<>>
                     ELSE LET q == Head(qs) IN
                          IF q.t = "ph" /\ q.id \notin seen THEN <<q.id>> \o NewQPhs(seen \cup {q.id}, Tail(qs))
                          ELSE NewQPhs(seen, Tail(qs))
CanonOK(b, i) ==
  IF IsT(i) THEN (i.target.t = "ph" /\ i.target.id = 2) => 1 \in TPhIds(b)
  ELSE LET seen == QPhIds(b)
           new  == NewQPhs(seen, i.qs)
       IN new = [m \in DOMAIN new |-> Cardinality(seen) + m]

AllQ(b) == \A m \in DOMAIN b : ~IsT(b[m])
AllT(b) == \A m \in DOMAIN b : IsT(b[m])
LenOK(b) == Len(b) <= (IF AllQ(b) THEN MaxLenQ ELSE IF AllT(b) THEN MaxLenT ELSE MaxLenMixed)

\* custom resolvers: fixed candidate values (two placeholders deliberately share a value, one collides with
\* a fixed name / qubit - a custom resolver may do that), every subset of the body's placeholders
CustomQ == [id \in 1..3 |-> CASE id = 1 -> 7 [] id = 2 -> 7 [] id = 3 -> 0]
CustomT == [id \in 1..3 |-> CASE id = 1 -> "x" [] id = 2 -> "a_0" [] id = 3 -> "x"]

Init == RunInit(<<>>, "default", EmptyFn, EmptyFn) /\ phase = "gen"
Grow == /\ phase = "gen"
        /\ \E i \in QAlphabet \cup TAlphabet :
              /\ CanonOK(body, i) /\ LenOK(Append(body, i))
              /\ body' = Append(body, i)
        /\ UNCHANGED <<mode, phase, pc, fixedLabels, labelPhs, tmap, usedQ, qubitPhs, cursor, qmap, result>>
StartDefault == /\ phase = "gen" /\ phase' = "scanT"
                /\ UNCHANGED <<body, mode, pc, fixedLabels, labelPhs, tmap, usedQ, qubitPhs, cursor, qmap, result>>
StartCustom == /\ phase = "gen" /\ Len(body) <= MaxLenCustom /\ phase' = "resolve" /\ mode' = "custom"
               /\ \E st \in SUBSET TPhIds(body) : \E sq \in SUBSET QPhIds(body) :
                     /\ tmap' = [id \in st |-> CustomT[id]] /\ qmap' = [id \in sq |-> CustomQ[id]]
               /\ UNCHANGED <<body, pc, fixedLabels, labelPhs, usedQ, qubitPhs, cursor, result>>
Next == Grow \/ StartDefault \/ StartCustom \/ Run
Spec == Init /\ [][Next]_vars

RECURSIVE IdSeq(_)
IdSeq(S) == IF S = {} THEN <<>> ELSE LET m == Min(S) IN <<m>> \o IdSeq(S \ {m})
Pairs(f) == LET ids == IdSeq(DOMAIN f) IN [m \in DOMAIN ids |-> [id |-> ids[m], v |-> f[ids[m]]]]
Emit == phase = "done" =>
          PrintT(<<"CASE", ToJson([body |-> body, mode |-> mode, tmap |-> Pairs(tmap), qmap |-> Pairs(qmap),
                                   result |-> result])>>)
=============================================================================
