SPECIFICATION Spec
CONSTANT MaxDepth = 8
CONSTANT AsBuiltRemove = FALSE
CONSTANT Families = {"struct", "gkinds", "mkinds", "param", "params2"}
CONSTANT StructGates = {"X", "W", "Z"}
CONSTANT StructDeclare = TRUE
CONSTANT StructW2 = FALSE
CONSTANT Wide = FALSE
CONSTANT MapModes = {TRUE}
CONSTANT AllowUnboundedGrowth = FALSE
CONSTRAINT DepthConstraint
INVARIANT Refines
INVARIANT Fixpoint
INVARIANT OrderKept
INVARIANT DeclarationsHoisted
INVARIANT DepthBelowBound
INVARIANT NoDuplicateOnStack
INVARIANT StackLinked
INVARIANT ErrIffReentry
INVARIANT MapWellFormed
INVARIANT FrameEntriesTile
INVARIANT MapTilesPrefix
INVARIANT Emit
CHECK_DEADLOCK FALSE
