--------------------------- MODULE MC_Calibration ---------------------------
(* Bounded exploration of Calibration: a history of inserts is grown one definition at a time from
   an alphabet of identifiers (so that all TLC workers share the enumeration), then one query is
   looked up by the loop of the code.  One CASE line per (history, query).

   Exclusions (the statement quantifies over "small alphabets of names, modifiers, fixed/variable
   qubits and literal/variable parameters"): no placeholder qubits; calibration parameters are
   literals or variables only (no compound expressions); literals are non-negative. *)
EXTENDS Calibration, Json
CONSTANTS MaxCals,      \* length of the insert history
          Names,        \* names of gate calibrations (queries use QueryNames)
          QueryNames,
          ModSets,      \* modifier lists of identifiers and queries (ModsAll or ModsNone below)
          MeasCals      \* TRUE: also explore measurement calibrations

Q0 == Fixed(0)   Q1 == Fixed(1)   Qq == QVar("q")   Qr == QVar("r")

ModsAll    == {<<>>, <<"DAGGER">>}
ModsNone   == {<<>>}
CalParams  == {<<>>, <<EInt(1)>>, <<EPi2>>, <<EReal(HalfPi)>>, <<EVar("t")>>}
CalQubits  == {<<Q0>>, <<Qq>>, <<Q0, Q1>>, <<Qq, Q1>>, <<Qq, Qr>>}
GateParams == {<<>>, <<EInt(0)>>, <<EPi2>>, <<EVar("t")>>, <<EPlus1(EInt(0))>>}
GateQubits == {<<Q0>>, <<Q1>>, <<Q0, Q1>>}

GateCalIds == {[k |-> "DefCal", name |-> n, mods |-> m, params |-> p, qubits |-> q] :
                 n \in Names, m \in ModSets, p \in CalParams, q \in CalQubits}
GateQueries == {Gate(n, m, p, q) : n \in QueryNames, m \in ModSets, p \in GateParams, q \in GateQubits}

MeasCalIds == {[k |-> "DefCalMeasure", name |-> n, qubit |-> q, target |-> t] :
                 n \in {"", "m"}, q \in {Q0, Q1, Qq, Qr}, t \in {"", "addr"}}
MeasQueries == {Measure(n, q, t) : n \in {"", "m"}, q \in {Q0, Q1}, t \in {None, Some(MRef("ro", 1))}}

WithTag(id, tag) == IF id.k = "DefCal"
                    THEN [k |-> id.k, name |-> id.name, mods |-> id.mods, params |-> id.params, qubits |-> id.qubits, tag |-> tag]
                    ELSE [k |-> id.k, name |-> id.name, qubit |-> id.qubit, target |-> id.target, tag |-> tag]

Init == \E kd \in ({"gate"} \cup (IF MeasCals THEN {"meas"} ELSE {})) : InitWith(kd)
Add  == /\ Len(hist) < MaxCals
        /\ \E id \in (IF kind = "gate" THEN GateCalIds ELSE MeasCalIds) : Insert(WithTag(id, Len(hist) + 1))
LookupGate == \E g \in GateQueries : StartGate(g)
LookupMeas == \E m \in MeasQueries : StartMeas(m)
Next == Add \/ LookupGate \/ ScanGate \/ DoneGate \/ LookupMeas \/ ScanMeas \/ DoneMeas
Spec == Init /\ [][Next]_vars

\* one line per explored behaviour: the input (history, query) and the expected public observables
Emit == phase = "done" =>
          PrintT(<<"CASE", ToJson([kind |-> kind, hist |-> hist, query |-> query,
                                   gtags |-> IF kind = "gate" THEN Tags(set) ELSE <<>>,
                                   mtags |-> IF kind = "meas" THEN Tags(set) ELSE <<>>,
                                   chosen |-> ChosenTag,
                                   nmatch |-> Cardinality(IF kind = "gate" THEN GMatching(set, query)
                                                          ELSE MMatching(set, query))])>>)
=============================================================================
