--------------------------- MODULE MC_Calibration ---------------------------
(* Bounded exploration of Calibration: a history of inserts is grown one definition at a time from
   an alphabet of identifiers (so that all TLC workers share the enumeration), then one query is
   looked up by the loop of the code.  One CASE line per (history, query).

   The alphabets are organised in *focuses*; one TLC run explores every focus of the configuration.
   Each focus is the full product of the dimensions it is about (with every list-valued dimension
   holding >= 2 distinct elements in different orders and multiplicities), the other dimensions
   being held at one or two values:

     general  names x {<<>>, <<DAGGER>>} x parameter lists of length <= 1 (literal spellings of one
              value, variable) x qubit lists (fixed / variable mixes): precedence by fixed-qubit count
              and definition order, interplay of all six rules
     mods     modifier lists of length 0..3 over DAGGER and CONTROLLED, in both orders and with
              different multiplicities, on the definition and on the query side; two names
     params   parameter lists of length 1..2 mixing literals and variables in every order, queried with
              argument lists in both orders (positions must line up)
     qubits   qubit lists of length 2 with fixed and variable qubits in every position and order
     meas     measurement calibrations: names (none, two distinct ones), fixed / variable qubits,
              record / effect

   Exclusions (the statement quantifies over "small alphabets of names, modifiers, fixed/variable
   qubits and literal/variable parameters"): no placeholder qubits; calibration parameters are
   literals or variables only (no compound expressions); literals are non-negative. *)
EXTENDS Calibration, Json
CONSTANTS Focuses,      \* subset of {"general", "mods", "params", "qubits", "meas"}
          MaxGeneral,   \* length of the insert history in the focus "general"
          MaxSmall,     \* ... in the focuses "mods", "params", "qubits"
          MaxMeas,      \* ... in the focus "meas"
          GeneralNames  \* names of the definitions in the focus "general" (queries are named RX)

Q0 == Fixed(0)   Q1 == Fixed(1)   Qq == QVar("q")   Qr == QVar("r")
D == "DAGGER"    C == "CONTROLLED"
T == EVar("t")   U == EVar("u")

GateIds(names, mods, params, qubits) ==
  {[k |-> "DefCal", name |-> n, mods |-> m, params |-> p, qubits |-> q] :
     n \in names, m \in mods, p \in params, q \in qubits}
Gates(names, mods, params, qubits) ==
  {Gate(n, m, p, q) : n \in names, m \in mods, p \in params, q \in qubits}

ModLists == {<<>>, <<D>>, <<D, C>>, <<C, D>>, <<D, D, C>>, <<D, C, C>>}

GateCalIds(f) ==
  CASE f = "general" -> GateIds(GeneralNames, {<<>>, <<D>>},
                                {<<>>, <<EInt(1)>>, <<EPi2>>, <<EReal(HalfPi)>>, <<T>>},
                                {<<Q0>>, <<Qq>>, <<Q0, Q1>>, <<Qq, Q1>>, <<Qq, Qr>>})
    [] f = "mods"    -> GateIds({"X", "RX"}, ModLists, {<<>>}, {<<Q0, Q1>>, <<Qq, Q1>>})
    [] f = "params"  -> GateIds({"RX"}, {<<>>},
                                {<<EInt(1)>>, <<T>>, <<EInt(1), T>>, <<T, EInt(1)>>, <<T, U>>,
                                 <<EInt(1), EPi2>>, <<EPi2, EInt(1)>>},
                                {<<Q0>>, <<Qq>>})
    [] f = "qubits"  -> GateIds({"RX"}, {<<>>}, {<<>>},
                                {<<Q0, Q1>>, <<Q1, Q0>>, <<Qq, Q1>>, <<Q0, Qr>>, <<Q1, Qr>>, <<Qq, Q0>>, <<Qq, Qr>>})
GateQueries(f) ==
  CASE f = "general" -> Gates({"RX"}, {<<>>, <<D>>},
                              {<<>>, <<EInt(0)>>, <<EPi2>>, <<T>>, <<EPlus1(EInt(0))>>},
                              {<<Q0>>, <<Q1>>, <<Q0, Q1>>})
    [] f = "mods"    -> Gates({"RX"}, ModLists, {<<>>}, {<<Q0, Q1>>})
    [] f = "params"  -> Gates({"RX"}, {<<>>},
                              {<<EInt(1)>>, <<EPi2>>, <<EInt(1), EPi2>>, <<EPi2, EInt(1)>>, <<EInt(1), EInt(1)>>,
                               <<EPlus1(EInt(0)), EReal(HalfPi)>>},
                              {<<Q0>>, <<Q1>>})
    [] f = "qubits"  -> Gates({"RX"}, {<<>>}, {<<>>}, {<<Q0, Q1>>, <<Q1, Q0>>, <<Q1, Q1>>})

MeasCalIds == {[k |-> "DefCalMeasure", name |-> n, qubit |-> q, target |-> t] :
                 n \in {"", "m", "n"}, q \in {Q0, Q1, Qq, Qr}, t \in {"", "addr"}}
MeasQueries == {Measure(n, q, t) : n \in {"", "m"}, q \in {Q0, Q1}, t \in {None, Some(MRef("ro", 1))}}

MaxOf(f) == CASE f = "general" -> MaxGeneral [] f = "meas" -> MaxMeas [] OTHER -> MaxSmall

WithTag(id, tag) == IF id.k = "DefCal"
                    THEN [k |-> id.k, name |-> id.name, mods |-> id.mods, params |-> id.params, qubits |-> id.qubits, tag |-> tag]
                    ELSE [k |-> id.k, name |-> id.name, qubit |-> id.qubit, target |-> id.target, tag |-> tag]

VARIABLE focus
mvars == <<vars, focus>>

Init == /\ focus \in Focuses
        /\ InitWith(IF focus = "meas" THEN "meas" ELSE "gate")
Add  == /\ Len(hist) < MaxOf(focus)
        /\ \E id \in (IF focus = "meas" THEN MeasCalIds ELSE GateCalIds(focus)) : Insert(WithTag(id, Len(hist) + 1))
        /\ UNCHANGED focus
LookupGate == focus # "meas" /\ (\E g \in GateQueries(focus) : StartGate(g)) /\ UNCHANGED focus
LookupMeas == focus = "meas" /\ (\E m \in MeasQueries : StartMeas(m)) /\ UNCHANGED focus
MScanGate == ScanGate /\ UNCHANGED focus
MDoneGate == DoneGate /\ UNCHANGED focus
MScanMeas == ScanMeas /\ UNCHANGED focus
MDoneMeas == DoneMeas /\ UNCHANGED focus
Next == Add \/ LookupGate \/ MScanGate \/ MDoneGate \/ LookupMeas \/ MScanMeas \/ MDoneMeas
Spec == Init /\ [][Next]_mvars

\* one line per explored behaviour: the input (history, query) and the expected public observables
Emit == phase = "done" =>
          PrintT(<<"CASE", ToJson([focus |-> focus, kind |-> kind, hist |-> hist, query |-> query,
                                   gtags |-> IF kind = "gate" THEN Tags(set) ELSE <<>>,
                                   mtags |-> IF kind = "meas" THEN Tags(set) ELSE <<>>,
                                   chosen |-> ChosenTag,
                                   nmatch |-> Cardinality(IF kind = "gate" THEN GMatching(set, query)
                                                          ELSE MMatching(set, query))])>>)
=============================================================================
