SPECIFICATION Spec
CONSTANT MaxCals = 3
CONSTANT Names = {"RX"}
CONSTANT QueryNames = {"RX"}
CONSTANT ModSets <- ModsNone
CONSTANT MeasCals = TRUE
INVARIANT GateRefines
INVARIANT MeasRefines
INVARIANT ChosenIsLegal
INVARIANT GatePrefixBest
INVARIANT MeasSuffixBest
INVARIANT ReplaceInPlace
INVARIANT UniqueSignatures
INVARIANT Emit
CHECK_DEADLOCK FALSE
