SPECIFICATION Spec
CONSTANT MaxLen = 7
CONSTANT Instances = {"mem"}
INVARIANT DepsExact
INVARIANT ConflictsOrdered
INVARIANT DepsJustified
INVARIANT ReadsUnordered
INVARIANT DepsEarlier
INVARIANT PendingExact
INVARIANT CellExact
INVARIANT Emit
CHECK_DEADLOCK FALSE
