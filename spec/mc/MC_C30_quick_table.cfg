SPECIFICATION Spec
CONSTANT MaxLen = 1
CONSTANT Table = TRUE
CONSTANT FullDepth2 = FALSE
INVARIANT Decomposes
INVARIANT FirstError
INVARIANT SameAsBase
INVARIANT Emit
CHECK_DEADLOCK FALSE
