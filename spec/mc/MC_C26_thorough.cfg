SPECIFICATION Spec
CONSTANT MaxFrames = 3
CONSTANT Wide = TRUE
INVARIANT Agrees
INVARIANT SetLaws
INVARIANT NoneForOthers
INVARIANT Emit
CHECK_DEADLOCK FALSE
