------------------------ MODULE MC_ControlFlowGraph ------------------------
(* Bounded exploration of ControlFlowGraph: the body is grown one instruction at a time from an
   alphabet (so that all TLC workers share the enumeration), then the builder runs. *)
EXTENDS ControlFlowGraph, Json
CONSTANTS MaxLen, WithInclude

Alphabet == {Plain("X 0"), Plain("MOVE r[0] 1"), Label("a"), Label("b"), Jump("a"),
             JumpWhen("a", "r[0]"), JumpUnless("b", "r[0]"), Halt}
            \cup (IF WithInclude THEN {Skipped("INCLUDE \"f.quil\"")} ELSE {})

Init == RunInit(<<>>) /\ phase = "gen"
Grow == /\ phase = "gen" /\ Len(body) < MaxLen
        /\ \E i \in Alphabet : body' = Append(body, i)
        /\ UNCHANGED <<pc, openLabel, openInstrs, offset, blocks, phase>>
Start == /\ phase = "gen" /\ phase' = "run"
         /\ UNCHANGED <<body, pc, openLabel, openInstrs, offset, blocks>>
Next == Grow \/ Start \/ Step \/ Flush
Spec == Init /\ [][Next]_vars

\* one line per explored behaviour: the input and the expected public result
Emit == phase = "done" =>
          PrintT(<<"CASE", ToJson([body |-> body, blocks |-> blocks, dynamic |-> HasDynamic(blocks)])>>)
=============================================================================
