SPECIFICATION Spec
CONSTANT Deviations = {}
CONSTANT Family = "subst"
CONSTANT W1 = 2
CONSTANT W2 = 1
CONSTANT W3 = 1
CONSTANT FilterLevel = 2
CONSTANT BodyLevel = 2
INVARIANT Refines
INVARIANT ErrorsExact
INVARIANT OthersUntouched
INVARIANT KeepSetExact
INVARIANT KeepOrder
INVARIANT ReachAgree
INVARIANT MapWellFormed
INVARIANT MapNames
INVARIANT FullyExpanded
INVARIANT GenStackDiscipline
INVARIANT GenDepthBounded
INVARIANT NotStuck
INVARIANT FrameInvariant
INVARIANT Emit
CHECK_DEADLOCK FALSE
