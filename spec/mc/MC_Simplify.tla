---------------------------- MODULE MC_Simplify ----------------------------
(* Bounded exploration of Simplify: fixed definition tables (four frames on overlapping qubits, two
   waveforms, two externs, four calibrations of which one is nested and one is never invoked directly),
   every body up to MaxLen over the alphabet below.  Variant = "all" | "noB" additionally removes frame
   0 "b" from the table, so that the same instructions meet a different frame set. *)
EXTENDS Simplify, Json
CONSTANTS MaxLen, Sel, Variant

FTall == << [name |-> "a", qubits |-> <<0>>, rate |-> 2], [name |-> "b", qubits |-> <<0>>, rate |-> 4],
            [name |-> "a", qubits |-> <<1>>, rate |-> 2], [name |-> "c", qubits |-> <<0, 1>>, rate |-> 0] >>
FT  == IF Variant = "noB" THEN SelectSeq(FTall, LAMBDA f : f.name # "b") ELSE FTall
WFS == << [name |-> "w1", len |-> 4], [name |-> "w2", len |-> 8] >>
EXTS == << "foo", "bar" >>
F0a == Fr("a", <<0>>)
F0b == Fr("b", <<0>>)
F1a == Fr("a", <<1>>)
F01c == Fr("c", <<0, 1>>)

P0a   == Pulse("PULSE 0 \"a\" flat(duration: 2, iq: 1)", TRUE, F0a, Tmpl(2, 0, 0))        \* blocks 0 "b", 0 1 "c"
NP1w1 == Pulse("NONBLOCKING PULSE 1 \"a\" w1", FALSE, F1a, Def("w1"))
NP0w2 == Pulse("NONBLOCKING PULSE 0 \"b\" w2", FALSE, F0b, Def("w2"))
NC1w2 == Capture("NONBLOCKING CAPTURE 1 \"a\" w2 ro[0]", FALSE, F1a, Def("w2"))
P01c  == Pulse("PULSE 0 1 \"c\" flat(duration: 1, iq: 1)", TRUE, F01c, Tmpl(1, 0, 0))      \* blocks the three others
NP2z  == Pulse("NONBLOCKING PULSE 2 \"z\" flat(duration: 2, iq: 1)", FALSE, Fr("z", <<2>>), Tmpl(2, 0, 0))
FnAll == Fence("FENCE", <<>>)
Fn1   == Fence("FENCE 1", <<1>>)
D0    == Delay("DELAY 0 2", <<0>>, <<>>, 2)
D01   == Delay("DELAY 0 1 1", <<0, 1>>, <<>>, 1)
D0b   == Delay("DELAY 0 \"b\" 1", <<0>>, <<"b">>, 1)
Sh0b  == SetShift("SHIFT-PHASE 0 \"b\" 1", F0b)
Sw    == SwapPhases("SWAP-PHASES 0 \"a\" 1 \"a\"", F0a, F1a)
CFoo  == Call("CALL foo i[0]", "foo")
CBar  == Call("CALL bar i[1]", "bar")
Lbl   == Label("LABEL @l")
Mov   == Untimed("MOVE i[0] 1")
Rst1  == Reset("RESET 1", <<1>>)                                  \* uses 1 "a", blocks 0 1 "c"

CALS == << [head |-> "X 0", body |-> <<P0a>>],                       \* its pulse only blocks 0 "b" and 0 1 "c"
           [head |-> "Y 0", body |-> <<Gate("X 0"), NP0w2>>],        \* nested; w2 is invoked only from here and Z 1
           [head |-> "Z 1", body |-> <<NC1w2, Fn1>>],
           [head |-> "U 1", body |-> <<NP1w1, CBar>>] >>             \* w1 / bar reachable only through U 1
GX == Gate("X 0")
GY == Gate("Y 0")
GZ == Gate("Z 1")
GU == Gate("U 1")
GH == Gate("H 0")                                                    \* no calibration
OTH == [decls |-> <<"ro", "i">>, gates |-> <<"FOO">>, circuits |-> <<"BELL">>]

Small == {GX, GY, GZ, GU, P0a, NP1w1, FnAll, D0, CFoo, Lbl}
Large == Small \cup {GH, NP0w2, NC1w2, P01c, NP2z, Fn1, D01, D0b, Sh0b, Sw, CBar, Mov, Rst1}
Alphabet == IF Sel = "small" THEN Small ELSE Large

P0 == [ft |-> FT, wfs |-> WFS, exts |-> EXTS, cals |-> CALS, other |-> OTH, body |-> <<>>]

Init == SInit(P0) /\ sphase = "gen"
Grow == /\ sphase = "gen" /\ Len(prog.body) < MaxLen
        /\ \E i \in Alphabet : prog' = [prog EXCEPT !.body = Append(@, i)]
        /\ UNCHANGED <<out, bpc, spos, fu, wu, eu, sphase>>
Start == /\ sphase = "gen" /\ sphase' = "expand"
         /\ out' = [prog EXCEPT !.body = <<>>]
         /\ UNCHANGED <<prog, bpc, spos, fu, wu, eu>>
Next == Grow \/ Start \/ SRun
Spec == Init /\ [][Next]_svars

Texts(b) == [n \in DOMAIN b |-> b[n].text]
CalTexts(cs) == [n \in DOMAIN cs |-> [head |-> cs[n].head, body |-> Texts(cs[n].body)]]
SchedJson(s) == [n \in DOMAIN s |-> IF IsNone(s[n]) THEN None ELSE Some([items |-> s[n].some.items, total |-> s[n].some.total])]
Emit == sphase = "done" =>
  PrintT(<<"CASE", ToJson(
     [frames |-> prog.ft, wfs |-> prog.wfs, exts |-> prog.exts, cals |-> CalTexts(prog.cals),
      body |-> Texts(prog.body),
      out |-> [frames |-> [n \in DOMAIN out.ft |-> FrameId(out.ft[n])],
               wfs |-> [n \in DOMAIN out.wfs |-> out.wfs[n].name], exts |-> out.exts,
               body |-> Texts(out.body)],
      scheds |-> SchedJson(SchedulesOf(out.ft, out.wfs, out.body))])>>)
=============================================================================
