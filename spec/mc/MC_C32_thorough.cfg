SPECIFICATION Spec
CONSTANT KindSet = {"flat", "gaussian", "drag_gaussian", "erf_square", "hermite_gaussian", "raised_cosine", "boxcar_kernel"}
CONSTANT Rates = {"1", "4", "1e9"}
CONSTANT Ks = {0, 1, 2, 3, 4, 5}
CONSTANT MisKs = {0, 1, 4}
CONSTANT PadLevel = 2
CONSTANT ScaleVals = {"0", "1", "2", "-1/2"}
CONSTANT PhaseVals = {"0", "1/8", "1/4", "1/2"}
CONSTANT DetVals = {"0", "nz"}
INVARIANT TypeOK
INVARIANT LengthExact
INVARIANT ShapeRight
INVARIANT MisalignedErr
INVARIANT Emit
PROPERTY LengthConstantUnderSupply
PROPERTY NoWayBack
CHECK_DEADLOCK FALSE
