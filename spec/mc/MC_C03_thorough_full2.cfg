SPECIFICATION Spec
CONSTANT Deviations = {}
CONSTANT LeafSet = "tiny"
CONSTANT FnSet = "one"
CONSTANT FullDepth2 = TRUE
CONSTANT MaxDepth = 2
INVARIANT RoundTripParses
INVARIANT RoundTripValue
INVARIANT ReparseExact
INVARIANT NamesKept
INVARIANT ParsedNormal
INVARIANT Emit
CHECK_DEADLOCK FALSE
