SPECIFICATION Spec
CONSTANT MaxBody = 4
CONSTANT MaxIter = 6
CONSTANT Ops = {"a", "b", "c", "d"}
CONSTANT Cells = {0, 1, 2}
CONSTANT Shapes = {"ideal", "unless"}
CONSTANT Deviations = {}
INVARIANT ExactlyNTimes
INVARIANT InOrderSoFar
INVARIANT NotStuck
INVARIANT StepBound
INVARIANT NeverNegative
INVARIANT SmallNShape
INVARIANT CounterTracksRounds
INVARIANT DefsPreservedModel
INVARIANT Emit
PROPERTY Terminates
CHECK_DEADLOCK FALSE
