\* deviation demo, not part of any plan.  expected: Invariant KeepSetExact is violated (SA unselected -> SB -> SC: SC must be kept)
SPECIFICATION Spec
CONSTANT Deviations = {"KeepDirectOnly"}
CONSTANT Family = "graph"
CONSTANT W1 = 2
CONSTANT W2 = 1
CONSTANT W3 = 1
CONSTANT FilterLevel = 2
CONSTANT BodyLevel = 1
INVARIANT Refines
INVARIANT ErrorsExact
INVARIANT OthersUntouched
INVARIANT KeepSetExact
INVARIANT KeepOrder
INVARIANT ReachAgree
INVARIANT MapWellFormed
INVARIANT MapNames
INVARIANT FullyExpanded
INVARIANT GenStackDiscipline
INVARIANT GenDepthBounded
INVARIANT NotStuck
INVARIANT FrameInvariant
CHECK_DEADLOCK FALSE
