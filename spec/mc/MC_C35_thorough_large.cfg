SPECIFICATION Spec
CONSTANT MaxLen = 4
CONSTANT Sel = "large"
CONSTANT Variant = "all"
INVARIANT KeepsExactly
INVARIANT SchedulesEqual
INVARIANT FunctionAgrees
INVARIANT Idempotent
INVARIANT ExpandInv
INVARIANT ScanInv
INVARIANT RestrictedSummaries
INVARIANT Emit
CHECK_DEADLOCK FALSE
