---------------------------- MODULE MC_Schedule ----------------------------
(* Bounded exploration of Schedule: a source block is grown one instruction at a time from a concrete
   alphabet over a fixed frame table (four frames on overlapping qubits), then the four loops run.
   Every instruction of the alphabet is given as structured data + its Quil text; summaries (frames used /
   blocked, duration) are computed by the module's own frame rules.  Gates stand for calibrated source
   instructions; the calibration table below says what they expand to (nested for Y).

   Excluded by construction (outside the statement's quantifier): blocks with classical control flow inside,
   recursive calibrations, non-integer durations. *)
EXTENDS Schedule, Json
CONSTANTS MaxLen,      \* number of source instructions
          Sel          \* "core" | "full" | "cal"

\* DEFFRAME 0 "a" / 0 "b" / 1 "a" / 0 1 "c"; SAMPLE-RATE 2, 4, 2, none
FT == << [name |-> "a", qubits |-> <<0>>, rate |-> 2], [name |-> "b", qubits |-> <<0>>, rate |-> 4],
         [name |-> "a", qubits |-> <<1>>, rate |-> 2], [name |-> "c", qubits |-> <<0, 1>>, rate |-> 0] >>
WFS == << [name |-> "w", len |-> 4] >>       \* DEFWAVEFORM w: 4 samples
F0a == Fr("a", <<0>>)
F0b == Fr("b", <<0>>)
F1a == Fr("a", <<1>>)
F01c == Fr("c", <<0, 1>>)

P0a   == Pulse("PULSE 0 \"a\" flat(duration: 2, iq: 1)", TRUE, F0a, Tmpl(2, 0, 0))
NP0b  == Pulse("NONBLOCKING PULSE 0 \"b\" flat(duration: 3, iq: 1)", FALSE, F0b, Tmpl(3, 0, 0))
P1a   == Pulse("PULSE 1 \"a\" flat(duration: 1, iq: 1)", TRUE, F1a, Tmpl(1, 0, 0))
NP01c == Pulse("NONBLOCKING PULSE 0 1 \"c\" flat(duration: 2, iq: 1)", FALSE, F01c, Tmpl(2, 0, 0))
NC1a  == Capture("NONBLOCKING CAPTURE 1 \"a\" flat(duration: 2, iq: 1) ro[0]", FALSE, F1a, Tmpl(2, 0, 0))
D0a   == Delay("DELAY 0 \"a\" 1", <<0>>, <<"a">>, 1)
D0    == Delay("DELAY 0 3", <<0>>, <<>>, 3)
Fn1   == Fence("FENCE 1", <<1>>)
FnAll == Fence("FENCE", <<>>)
Sh0a  == SetShift("SHIFT-PHASE 0 \"a\" 1", F0a)
Core  == {P0a, NP0b, P1a, NP01c, D0a, D0, Fn1, FnAll, Sh0a}

P01c  == Pulse("PULSE 0 1 \"c\" flat(duration: 1, iq: 1)", TRUE, F01c, Tmpl(1, 0, 0))
C0b   == Capture("CAPTURE 0 \"b\" flat(duration: 1, iq: 1) ro[1]", TRUE, F0b, Tmpl(1, 0, 0))
R0a   == RawCapture("RAW-CAPTURE 0 \"a\" 2 raw[0]", TRUE, F0a, 2)
NR1a  == RawCapture("NONBLOCKING RAW-CAPTURE 1 \"a\" 3 raw[0]", FALSE, F1a, 3)
D01   == Delay("DELAY 0 1 2", <<0, 1>>, <<>>, 2)
D1b   == Delay("DELAY 1 \"b\" 1", <<1>>, <<"b">>, 1)                      \* matches no frame
D0ab  == Delay("DELAY 0 \"a\" \"b\" 2", <<0>>, <<"a", "b">>, 2)
Fn0   == Fence("FENCE 0", <<0>>)
Sf1a  == SetShift("SET-FREQUENCY 1 \"a\" 1", F1a)
Sw    == SwapPhases("SWAP-PHASES 0 \"a\" 0 \"b\"", F0a, F0b)
Perf  == Pulse("PULSE 0 \"a\" erf_square(duration: 1, pad_left: 1, pad_right: 2, risetime: 1)", TRUE, F0a,
               TmplN("erf_square", 1, 1, 2))
NPw0a == Pulse("NONBLOCKING PULSE 0 \"a\" w", FALSE, F0a, Def("w"))        \* 4 samples / rate 2 = 2
NPw0b == Pulse("NONBLOCKING PULSE 0 \"b\" w", FALSE, F0b, Def("w"))        \* 4 samples / rate 4 = 1
NP2z  == Pulse("NONBLOCKING PULSE 2 \"z\" flat(duration: 2, iq: 1)", FALSE, Fr("z", <<2>>), Tmpl(2, 0, 0))  \* undefined frame
NPwc  == Pulse("NONBLOCKING PULSE 0 1 \"c\" w", FALSE, F01c, Def("w"))     \* no SAMPLE-RATE: unknown duration
Nop   == Untimed("NOP")
Rst   == Reset("RESET 0", <<0>>)
Full  == Core \cup {NC1a, P01c, C0b, R0a, NR1a, D01, D1b, D0ab, Fn0, Sf1a, Sw, Perf, NPw0a, NPw0b, NP2z, NPwc, Nop, Rst}

\* calibrated source instructions: gate text -> body (instructions or other gates)
Gate(text) == [k |-> "Gate", text |-> text]
Cals == << [head |-> "X 0",    body |-> <<P0a, NP0b>>],
           [head |-> "CZ 0 1", body |-> <<Fn0, NP01c, D0a>>],
           [head |-> "Y 0",    body |-> <<Gate("X 0"), Sh0a>>],        \* nested
           [head |-> "I 1",    body |-> <<>>],                          \* expands to nothing
           [head |-> "W 0 1",  body |-> <<NP0b, NC1a>>] >>              \* after DELAY 0 3 its first pulse starts later than its second
Gates == {Gate("X 0"), Gate("CZ 0 1"), Gate("Y 0"), Gate("I 1"), Gate("W 0 1"), Gate("H 0")}     \* H 0 has no calibration
CalSel == Gates \cup {P1a, NP01c, D0a, D0, FnAll, Sh0a, NC1a}

CalOf(text) == {n \in DOMAIN Cals : Cals[n].head = text}
RECURSIVE ExpandI(_, _)
ExpandI(i, fuel) ==        \* fuel bounds the nesting (the table has no cycle)
  IF i.k = "Gate" /\ CalOf(i.text) # {} /\ fuel > 0
  THEN LET b == Cals[CHOOSE n \in CalOf(i.text) : TRUE].body
       IN FlattenSeq([n \in DOMAIN b |-> ExpandI(b[n], fuel - 1)])
  ELSE IF i.k = "Gate" THEN << [text |-> i.text, use |-> {}, blk |-> {}, dur |-> None] >>   \* uncalibrated gate: no duration
  ELSE << Summ(FT, WFS, i) >>
Entry(i) == [text |-> i.text, exp |-> ExpandI(i, 3)]

Alphabet == CASE Sel = "core" -> Core [] Sel = "full" -> Full [] Sel = "cal" -> CalSel
Entries == {Entry(i) : i \in Alphabet}

Init == RunInit(<<>>, Len(FT)) /\ phase = "gen"
Grow == /\ phase = "gen" /\ Len(src) < MaxLen
        /\ \E e \in Entries : src' = Append(src, e)
        /\ UNCHANGED <<nframes, spc, flat, mapping, pc, cells, edges, items, total, ipc, spans, sdur, err, phase>>
Start == /\ phase = "gen" /\ phase' = "expand"
         /\ UNCHANGED <<src, nframes, spc, flat, mapping, pc, cells, edges, items, total, ipc, spans, sdur, err>>
Next == Grow \/ Start \/ Run
Spec == Init /\ [][Next]_vars

\* one line per explored behaviour: the input and the expected public results (1-based indices)
CalText == [n \in DOMAIN Cals |-> [head |-> Cals[n].head, body |-> [m \in DOMAIN Cals[n].body |-> Cals[n].body[m].text]]]
ByIndex(its) == [j \in 1..Len(flat) |-> [start |-> St(its, j), dur |-> ItemOf(its, j).dur]]
SpanOpt(n) == LET X == {x \in spans : x.src = n} IN
              IF X = {} THEN None ELSE Some([start |-> (CHOOSE x \in X : TRUE).start, dur |-> (CHOOSE x \in X : TRUE).dur])
Emit == phase = "done" =>
   PrintT(<<"CASE", ToJson(
      [frames |-> FT, wfs |-> WFS, cals |-> IF Sel = "cal" THEN CalText ELSE <<>>,
       src |-> [n \in DOMAIN src |-> src[n].text],
       flat |-> FlatOf(src),
       ok |-> ~err,
       items |-> IF err THEN <<>> ELSE ByIndex(items), total |-> total,
       spans |-> IF err THEN <<>> ELSE [n \in DOMAIN src |-> SpanOpt(n)], sdur |-> sdur])>>)
=============================================================================
