SPECIFICATION Spec
CONSTANT MaxN = 6
CONSTANT MaxK = 5
CONSTANT FullN = 4
INVARIANT ArrIsPermutation
INVARIANT WindowInRange
INVARIANT SweepBound
INVARIANT LiftRefinesIdx
INVARIANT LiftRefinesFull
INVARIANT Emit
CHECK_DEADLOCK FALSE
