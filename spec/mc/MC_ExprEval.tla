---------------------------- MODULE MC_ExprEval ----------------------------
(* Bounded exploration of ExprEval: the tree is grown one constructor at a time; on every tree met on the
   way the memory-reference iterator is run to completion (one action per iteration of its inner loop)
   and, in its final state, the evaluation / substitution laws are checked for every partial assignment. *)
EXTENDS ExprEval, Json
CONSTANTS LeafSet,   \* "small" | "full"
          OpSet,     \* "one" | "two"   (the laws do not depend on which operator a node carries)
          MaxDepth

\* the region x shares its name with the variable x (index 0 and 1)
SmallLeaves == { Var("x"), Var("y"), Addr("x", 0), Addr("x", 1), Addr("n", 0), GNum(2) }
FullLeaves  == SmallLeaves \cup { PiC, Var("z") }
Leaves == IF LeafSet = "small" THEN SmallLeaves ELSE FullLeaves
Ops == IF OpSet = "one" THEN {"^"} ELSE {"^", "-"}
Fns == {"sin"}
Prefixes == {"neg", "pos"}

D1 == Leaves \cup Wrap(Leaves, Ops, Fns, Prefixes)
Siblings(e) == IF Depth(e) = 0 THEN Leaves ELSE D1

Init == \E e \in Leaves : Fresh(e)
Grow == /\ phase = "gen" /\ Depth(tree) < MaxDepth
        /\ \/ \E o \in Ops, b \in Siblings(tree) : tree' = Inf(tree, o, b)
           \/ \E o \in Ops, b \in Siblings(tree) : tree' = Inf(b, o, tree)
           \/ \E f \in Fns : tree' = Fn(f, tree)
           \/ \E p \in Prefixes : tree' = [t |-> p, e |-> tree]
        /\ UNCHANGED <<phase, stack, cur, outs>>
Next == Grow \/ Iterate
Spec == Init /\ [][Next]_vars

\* one line per explored tree: the input, the references in the order the model yields them, the variables
Emit == phase = "done" =>
          PrintT(<<"CASE", ToJson([tree |-> tree, refs |-> outs, vars |-> VarsOf(tree)])>>)
=============================================================================
