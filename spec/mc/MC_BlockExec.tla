---------------------------- MODULE MC_BlockExec ----------------------------
(* Bounded exploration: grow a body over an alphabet with memory-dependent control flow, let the
   ControlFlowGraph builder (Step/Flush) produce the blocks, then run the flat machine and the block
   machine in lock-step for `Fuel` steps.  Invariant: Faithful. *)
EXTENDS BlockExec, Json
CONSTANTS MaxLen, Fuel

Emit1(text)   == [k |-> "Plain", text |-> text, sem |-> [op |-> "emit"]]
MoveI(c, v)   == [k |-> "Plain", text |-> "MOVE " \o c \o " " \o ToString(v), sem |-> [op |-> "move", cell |-> c, v |-> v]]
SubI(c, v)    == [k |-> "Plain", text |-> "SUB " \o c \o " " \o ToString(v), sem |-> [op |-> "sub", cell |-> c, v |-> v]]
Alphabet == {Emit1("X 0"), MoveI("r[0]", 2), SubI("r[0]", 1), Label("a"), Label("b"), Jump("b"),
             JumpWhen("a", "r[0]"), JumpUnless("b", "r[0]"), Halt}

Init == RunInit(<<>>) /\ phase = "gen" /\ ExecInit /\ fuel = Fuel
Grow == /\ phase = "gen" /\ Len(body) < MaxLen
        /\ \E i \in Alphabet : body' = Append(body, i)
        /\ UNCHANGED <<pc, openLabel, openInstrs, offset, blocks, phase, evars>>
Start == /\ phase = "gen" /\ phase' = "run"
         /\ UNCHANGED <<body, pc, openLabel, openInstrs, offset, blocks, evars>>
Build == (Step \/ Flush) /\ UNCHANGED evars
Run   == phase = "done" /\ LockStep(body, blocks) /\ UNCHANGED vars
Next == Grow \/ Start \/ Build \/ Run
Spec == Init /\ [][Next]_allvars

FaithfulInv == phase = "done" => Faithful(body, blocks)
Finished == phase = "done" /\ (fuel = 0 \/ fstate # "run" \/ bstate # "run")
EmitCase == (Finished /\ fuel = Fuel - 0) => TRUE
\* one line per body: the body (with semantics) and the expected blocks; the harness hands the *real*
\* blocks of the same body to the trace specification, where TLC runs the two machines on them
Emit == (phase = "done" /\ fuel = Fuel) =>
          PrintT(<<"CASE", ToJson([body |-> body, blocks |-> blocks])>>)
=============================================================================
