--------------------------- MODULE MC_BlockGraph ---------------------------
(* Bounded exploration of BlockGraph.  The block is grown one *concrete* instruction at a time from an
   alphabet (so that all TLC workers share the enumeration); when the block is complete the instructions are
   turned into access summaries by MemAccess (reads / writes / captures) and FrameMatch (used / blocked frames
   against the defined frames DefFrames and the block's used qubits), exactly the four handler calls
   ScheduledBasicBlock::build makes, and the builder runs.

   Alphabets (constant Alpha):
     "mem"    pure-write and pure-read probes for regions a, b, c and one instruction of every classical kind with
              >= 2 operands (MOVE, ADD, XOR, EQ, CONVERT, EXCHANGE, LOAD, STORE), each operand in its own region, so
              that every operand is somewhere the only link to a neighbour; RF instructions that touch memory
     "rf"     RF instructions over three defined frames on overlapping qubits (0 "x", 1 "x", 0 1 "cz") and
              one undefined frame: blocking / non-blocking pulses, captures, raw captures, frame updates,
              SWAP-PHASES, fences (bare / one qubit / two qubits), delays (with / without frame names),
              RESET (bare / per qubit)
     "mixed"  a selection of both, plus the instructions the builder refuses (WAIT, a gate)
     "mem4" / "rf4" / "mixed4"  subsets of the above for the exhaustive length-4 runs of the thorough tier  *)
EXTENDS BlockGraph, Handler, Json
CONSTANTS MaxLen, Alpha

\* ---- frames ----
F0  == [name |-> "x", qubits |-> <<0>>]
F1  == [name |-> "x", qubits |-> <<1>>]
F01 == [name |-> "cz", qubits |-> <<0, 1>>]
FU  == [name |-> "u", qubits |-> <<0>>]          \* never defined
DefFrames == {F0, F1, F01}

\* ---- concrete instructions ----
Ref(n, i) == [name |-> n, index |-> i]
MRef(n, i) == [t |-> "mref", m |-> Ref(n, i)]
Int == [t |-> "int"]
Num == [t |-> "num"]
Addr(n) == [t |-> "addr", m |-> Ref(n, 0)]
Flat == <<Num, Num>>                              \* flat(duration: 1, iq: 1)
FlatA == <<Num, [t |-> "inf", op |-> "*", l |-> Num, r |-> Addr("a")]>>   \* flat(duration: 1, iq: 1*a[0])

Move(d, s)      == [k |-> "Move", dst |-> d, src |-> s]
Arith(o, d, s)  == [k |-> "Arith", op |-> o, dst |-> d, src |-> s]
Exchange(l, r)  == [k |-> "Exchange", left |-> l, right |-> r]
Load(d, s, o)   == [k |-> "Load", dst |-> d, source |-> s, offset |-> o]
Store(d, o, s)  == [k |-> "Store", destination |-> d, offset |-> o, src |-> s]
Unary(o, m)     == [k |-> "Unary", op |-> o, operand |-> m]
NopI            == [k |-> "Nop"]
PragmaI         == [k |-> "Pragma", name |-> "p"]
WaitI           == [k |-> "Wait"]
GateI           == [k |-> "Gate", name |-> "X", params |-> <<>>, qubits |-> <<0>>]
Pulse(b, f, w)      == [k |-> "Pulse", blocking |-> b, frame |-> f, wf |-> w]
Capture(b, f, w, m) == [k |-> "Capture", blocking |-> b, frame |-> f, wf |-> w, mref |-> m]
RawCapture(b, f, m) == [k |-> "RawCapture", blocking |-> b, frame |-> f, duration |-> Num, mref |-> m]
SetPhase(f, e)      == [k |-> "SetPhase", frame |-> f, e |-> e]
ShiftFreq(f, e)     == [k |-> "ShiftFrequency", frame |-> f, e |-> e]
SwapPhases(f, g)    == [k |-> "SwapPhases", frame_1 |-> f, frame_2 |-> g]
Fence(qs)           == [k |-> "Fence", qubits |-> qs]
Delay(qs, ns, e)    == [k |-> "Delay", duration |-> e, frame_names |-> ns, qubits |-> qs]
Reset(q)            == [k |-> "Reset", qubit |-> q]

HaltI            == [k |-> "Halt"]
JumpI            == [k |-> "Jump", target |-> "t"]
JumpWhen(m)      == [k |-> "JumpWhen", target |-> "t", cond |-> m]
JumpUnless(m)    == [k |-> "JumpUnless", target |-> "t", cond |-> m]

\* Memory alphabet.  Probes: for every region x of a, b, c a pure write  MOVE x[0] 1  and a pure read
\* MOVE d[k] x[1]  (the readers write d, which no instruction under test mentions).  Instructions under test:
\* every classical kind with >= 2 operands, each operand in a region of its own, so that next to a probe each
\* operand is the ONLY link between the two instructions (EQ b[0] a[1] c[0] next to MOVE a[0] 1: only the left
\* operand links them), with indices different from the probes' (region-level, not reference-level, keying).
WriteProbe(x) == Move(Ref(x, 0), Int)
ReadProbe(x, k) == Move(Ref("d", k), MRef(x, 1))
Compare(o, d, l, r) == [k |-> "Compare", op |-> o, dst |-> d, lhs |-> l, rhs |-> r]
Convert(d, m)       == [k |-> "Convert", dst |-> d, src |-> m]
Logic(o, d, x)      == [k |-> "Logic", op |-> o, dst |-> d, src |-> x]
FlatB == <<Num, [t |-> "inf", op |-> "*", l |-> Num, r |-> Addr("b")]>>
MemAlphabet ==
    { WriteProbe("a"), WriteProbe("b"), WriteProbe("c"),
      ReadProbe("a", 0), ReadProbe("b", 1), ReadProbe("c", 2),
      Move(Ref("a", 1), MRef("b", 0)),                       \* W a, R b
      Arith("ADD", Ref("b", 1), MRef("c", 0)),               \* RW b, R c
      Logic("XOR", Ref("c", 1), MRef("a", 0)),               \* RW c, R a
      Compare("EQ", Ref("b", 0), Ref("a", 1), MRef("c", 0)), \* W b, R a (left operand), R c
      Convert(Ref("c", 0), Ref("a", 1)),                     \* W c, R a
      Exchange(Ref("a", 1), Ref("b", 0)),                    \* RW a, RW b
      Load(Ref("a", 1), "b", Ref("c", 0)),                   \* W a, R b (dynamic), R c (offset)
      Store("a", Ref("b", 1), MRef("c", 0)),                 \* W a (dynamic), R b (offset), R c
      Capture(FALSE, F0, FlatB, Ref("a", 1)),                \* R b (waveform), C a
      RawCapture(FALSE, F1, Ref("c", 1)),                    \* C c
      SetPhase(F0, Addr("a")) }                              \* R a
RfAlphabet ==
    { Pulse(TRUE, F0, Flat), Pulse(FALSE, F0, Flat), Pulse(TRUE, F1, Flat), Pulse(FALSE, F1, Flat),
      Pulse(TRUE, F01, Flat), Pulse(FALSE, F01, Flat), Pulse(TRUE, FU, Flat), Pulse(FALSE, FU, Flat),
      Capture(TRUE, F0, Flat, Ref("a", 0)), Capture(FALSE, F01, Flat, Ref("a", 0)),
      RawCapture(TRUE, F1, Ref("b", 0)),
      SetPhase(F0, Num), ShiftFreq(F01, Num), SetPhase(FU, Num),
      SwapPhases(F0, F1), SwapPhases(F0, F01),
      Fence(<<>>), Fence(<<0>>), Fence(<<1>>),
      Delay(<<0>>, <<>>, Num), Delay(<<1>>, <<"x">>, Num), Delay(<<0, 1>>, <<>>, Num), Delay(<<0>>, <<"cz">>, Num),
      Reset(None), Reset(Some(0)), Reset(Some(1)) }
MixedAlphabet ==
    { Move(Ref("a", 0), Int), Arith("ADD", Ref("a", 0), MRef("b", 0)), Move(Ref("b", 0), MRef("a", 0)), NopI, PragmaI,
      Pulse(TRUE, F0, Flat), Pulse(FALSE, F1, Flat), Pulse(FALSE, FU, Flat),
      Capture(FALSE, F01, Flat, Ref("a", 0)), SetPhase(F1, Addr("a")),
      Fence(<<>>), Delay(<<0>>, <<>>, Num), Reset(Some(1)), SwapPhases(F0, F01),
      WaitI, GateI }
\* reduced alphabets for the exhaustive length-4 runs of the thorough tier
Mem4Alphabet ==
    { WriteProbe("a"), WriteProbe("b"), ReadProbe("a", 0), ReadProbe("c", 2), Move(Ref("a", 1), MRef("b", 0)),
      Arith("ADD", Ref("a", 0), Int), Compare("EQ", Ref("b", 0), Ref("a", 1), MRef("c", 0)), Exchange(Ref("a", 1), Ref("b", 0)),
      Load(Ref("a", 1), "b", Ref("c", 0)), NopI, Capture(FALSE, F0, FlatB, Ref("a", 1)), SetPhase(F0, Addr("a")) }
Rf4Alphabet ==
    { Pulse(TRUE, F0, Flat), Pulse(FALSE, F0, Flat), Pulse(TRUE, F1, Flat), Pulse(FALSE, F01, Flat), Pulse(FALSE, FU, Flat),
      SetPhase(F0, Num), SwapPhases(F0, F01), Fence(<<>>), Fence(<<1>>), Delay(<<0>>, <<>>, Num), Reset(None), Reset(Some(1)) }
Mixed4Alphabet ==
    { Move(Ref("a", 0), Int), Arith("ADD", Ref("a", 0), MRef("b", 0)), Move(Ref("b", 0), MRef("a", 0)), NopI,
      Pulse(TRUE, F0, Flat), Pulse(FALSE, F1, Flat), Pulse(FALSE, FU, Flat), Capture(FALSE, F01, Flat, Ref("a", 0)),
      SetPhase(F1, Addr("a")), Fence(<<>>), Reset(Some(1)) }
Alphabet == CASE Alpha = "mem" -> MemAlphabet [] Alpha = "rf" -> RfAlphabet [] Alpha = "mixed" -> MixedAlphabet
              [] Alpha = "mem4" -> Mem4Alphabet [] Alpha = "rf4" -> Rf4Alphabet [] Alpha = "mixed4" -> Mixed4Alphabet
Terminators == CASE Alpha = "mem"   -> {<<>>, <<JumpWhen(Ref("a", 1))>>, <<JumpUnless(Ref("c", 1))>>}
                 [] Alpha = "rf"    -> {<<>>, <<JumpI>>}
                 [] Alpha = "mixed" -> {<<>>, <<JumpI>>, <<JumpWhen(Ref("a", 0))>>}
                 [] Alpha = "mem4"  -> {<<HaltI>>, <<JumpWhen(Ref("a", 0))>>}
                 [] Alpha = "rf4"   -> {<<>>}
                 [] Alpha = "mixed4" -> {<<>>, <<JumpWhen(Ref("a", 0))>>}

\* ---- the handler, according to the specification (module Handler) ----
\* The access sets of the alphabet's symbols are derived once (a constant-level table); the semantic derivation of
\* MemAccess is too costly to repeat in every Start transition.
AllSymbols == Alphabet \cup UNION {Range(t) : t \in Terminators}
AccTable == [i \in AllSymbols |-> SpecAccess(i)]
SummaryOf(i, uq) == SummaryFrom(i, AccTable[i], DefFrames, uq)

VARIABLES src, tsrc      \* the concrete block and terminator being generated
mvars == <<bvars, src, tsrc>>

Init == /\ RunInit(<<>>, <<>>, {"a", "b", "c", "d"}, DefFrames) /\ phase = "gen" /\ src = <<>> /\ tsrc = <<>>
Grow == /\ phase = "gen" /\ Len(src) < MaxLen
        /\ \E i \in Alphabet : src' = Append(src, i)
        /\ UNCHANGED <<bvars, tsrc>>
Start == /\ phase = "gen"
         /\ \E t \in Terminators :
              LET uq == UsedQubits(src) IN
              /\ tsrc' = t
              /\ prog' = [n \in DOMAIN src |-> SummaryOf(src[n], uq)]
              /\ term' = [n \in DOMAIN t |-> SummaryOf(t[n], uq)]
         /\ phase' = "run"
         /\ UNCHANGED <<src, regions, frames, pc, mem, fr, tfr, trailing, edges>>
RunStep     == Step /\ UNCHANGED <<src, tsrc>>
RunStepTerm == StepTerm /\ UNCHANGED <<src, tsrc>>
RunFinish   == Finish /\ UNCHANGED <<src, tsrc>>
Next == Grow \/ Start \/ RunStep \/ RunStepTerm \/ RunFinish
Spec == Init /\ [][Next]_mvars

\* the summaries handed to the builder satisfy the frame laws (C26) - a sanity link between the modules
SummariesSane == \A n \in DOMAIN prog : prog[n].use \cap prog[n].blk = {} /\ prog[n].use \cup prog[n].blk \subseteq frames

\* one line per explored behaviour: the concrete block and the expected public result
Emit == phase \in {"done", "err"} =>
          PrintT(<<"CASE", ToJson([src |-> src, term |-> tsrc, frames |-> DefFrames, res |-> phase,
                                   sums |-> prog, tsum |-> term,      \* the specification's summaries: the verdict's conflict relation
                                   edges |-> IF phase = "done" THEN edges ELSE {}])>>)
=============================================================================
