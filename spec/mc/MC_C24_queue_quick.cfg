SPECIFICATION Spec
CONSTANT MaxLen = 6
CONSTANT Instances = {"frame"}
INVARIANT DepsExact
INVARIANT ConflictsOrdered
INVARIANT DepsJustified
INVARIANT ReadsUnordered
INVARIANT DepsEarlier
INVARIANT PendingExact
INVARIANT CellExact
INVARIANT Emit
CHECK_DEADLOCK FALSE
