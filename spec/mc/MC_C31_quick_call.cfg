SPECIFICATION Spec
CONSTANT Family = "call"
CONSTANT MaxParams = 2
CONSTANT CallLevel = 2
CONSTANT MutantParams = 0
INVARIANT ResolvesRefines
INVARIANT ErrorsPointAtMisfits
INVARIANT ResolvedShape
INVARIANT LoopInvariant
INVARIANT LoopOperatorAgrees
INVARIANT EmitCall
CHECK_DEADLOCK FALSE
