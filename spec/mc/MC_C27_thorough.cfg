SPECIFICATION Spec
CONSTANT MaxParams = 3
INVARIANT SemanticsOk
INVARIANT RuleOk
INVARIANT CapturesOnlyFromQuantum
INVARIANT Emit
CHECK_DEADLOCK FALSE
