---------------------------- MODULE MC_Waveform ----------------------------
(* Bounded exploration of the parameter-knowledge automaton of Waveform: every kind, sample-rate label,
   sample count, padding shape; from "everything unknown, nothing mentioned" all knowledge states are
   reached by Mention* / Supply* (so that the TLC workers share the enumeration).  Every state is one
   CASE line: the argument of partial_iq_values_at_sample_rate and the expected (t, shape, len, zeros). *)
EXTENDS Waveform, Json
CONSTANTS KindSet, Rates, Ks,      \* kinds, rate labels, sample counts k (duration = k samples)
          MisKs,                   \* additionally durations of k + 1/2 samples (misaligned) for these k
          PadLevel,                \* 1: three padding shapes, 2: six
          ScaleVals, PhaseVals, DetVals

Z0 == Q(0, 1)
\* paddings in samples: aligned (j), half-odd ((2j-1)/2) or a quarter above an integer ((4j+1)/4): the
\* three shapes tell ceil from round and from floor
PadPairs(rt) ==
  IF rt = "1e9"    \* j / 1e9 is not a binary fraction: aligned non-zero paddings would test float noise, not the rule
  THEN {<<Z0, Z0>>, <<Q(3, 2), Q(1, 4)>>}
  ELSE IF PadLevel = 1 THEN {<<Z0, Z0>>, <<Q(1, 1), Q(3, 2)>>, <<Q(5, 4), Z0>>}
  ELSE {<<Z0, Z0>>, <<Q(1, 1), Q(3, 2)>>, <<Q(5, 4), Z0>>, <<Q(2, 1), Q(2, 1)>>, <<Z0, Q(5, 2)>>, <<Q(1, 2), Q(9, 4)>>}
PadsFor(kd, rt) == IF Padded(kd) THEN PadPairs(rt) ELSE {<<Z0, Z0>>}
Durations == {Q(k, 1) : k \in Ks} \cup {Q(2 * k + 1, 2) : k \in MisKs}

Init == \E kd \in KindSet, rt \in Rates, d \in Durations :
          \E pp \in PadsFor(kd, rt) : WInit(kd, rt, d, pp[1], pp[2])
Own    == \E p \in DOMAIN own : SupplyOwn(p)
Scale  == \E v \in ScaleVals : SupplyScale(v)
Phase  == \E v \in PhaseVals : SupplyPhase(v)
Detune == \E v \in DetVals : SupplyDetuning(v)
Next == MentionScale \/ MentionPhase \/ MentionDetuning \/ Own \/ Scale \/ Phase \/ Detune
Spec == Init /\ [][Next]_vars

Emit == PrintT(<<"CASE", ToJson([kind |-> kind, rate |-> rate, dur |-> dur, padL |-> padL, padR |-> padR,
                                 own |-> own, scale |-> scale, phase |-> phase, detuning |-> detuning,
                                 res |-> Result])>>)
=============================================================================
