-------------------------- MODULE MC_ProgramModel --------------------------
(* Bounded exploration of ProgramModel for C08-C11.

   A history is generated in three sections (so that all TLC workers share the enumeration):
     section "A": up to maxA add_instruction calls on register A over alphabet alphaA
     section "B": up to maxB add_instruction calls on register B over alphabet alphaB
     section "T": between minT and maxT operations drawn from the operation kinds in `tail`
                  (adds over alphaT, concatenations, clones, rebuilds, filters, supplied-result operations)
   A profile fixes these parameters; a property/tier pair runs one or more profiles (chosen in Init).
   Every finished history is printed once as a CASE line: the operations with the model's projection of
   the written register after each of them.                                                              *)
EXTENDS ProgramModel, Json
CONSTANTS Prop, Tier

----------------------------------------------------------------------------
\* Alphabet.  `text` is the canonical Quil text of the instruction (what quil-rs prints), `qs` what
\* Instruction::get_qubits counts.  Per table: two keys, one of them with two values (frames: three keys).
I(id, k, key, text, qs) == Instr(id, k, key, text, qs)
Q(n) == Fixed(n)

e1  == I("e1",  "Extern", "foo", "PRAGMA EXTERN foo \"INTEGER (x : INTEGER)\"", {})
e1b == I("e1b", "Extern", "foo", "PRAGMA EXTERN foo \"REAL (x : REAL)\"", {})
e2  == I("e2",  "Extern", "bar", "PRAGMA EXTERN bar \"INTEGER (y : INTEGER)\"", {})
d1  == I("d1",  "Declare", "a", "DECLARE a BIT[1]", {})
d1b == I("d1b", "Declare", "a", "DECLARE a REAL[2]", {})
d2  == I("d2",  "Declare", "b", "DECLARE b BIT[1]", {})
f1  == I("f1",  "DefFrame", "0 \"x\"", "DEFFRAME 0 \"x\":\n    HARDWARE-OBJECT: \"h1\"", {})
f1b == I("f1b", "DefFrame", "0 \"x\"", "DEFFRAME 0 \"x\":\n    HARDWARE-OBJECT: \"h2\"", {})
f2  == I("f2",  "DefFrame", "1 \"x\"", "DEFFRAME 1 \"x\":\n    HARDWARE-OBJECT: \"h1\"", {})
f3  == I("f3",  "DefFrame", "0 1 \"x\"", "DEFFRAME 0 1 \"x\":\n    HARDWARE-OBJECT: \"h1\"", {})
w1  == I("w1",  "DefWaveform", "w", "DEFWAVEFORM w:\n    1, 2", {})
w1b == I("w1b", "DefWaveform", "w", "DEFWAVEFORM w:\n    2, 1", {})
w2  == I("w2",  "DefWaveform", "v", "DEFWAVEFORM v:\n    1, 2", {})
c1  == I("c1",  "DefCal", "DEFCAL X 0", "DEFCAL X 0:\n    Y 2", {Q(0), Q(2)})
c1b == I("c1b", "DefCal", "DEFCAL X 0", "DEFCAL X 0:\n    Y 0", {Q(0)})
c2  == I("c2",  "DefCal", "DEFCAL X 1", "DEFCAL X 1:\n    Y 1", {Q(1)})
c3  == I("c3",  "DefCal", "DEFCAL X q", "DEFCAL X q:\n    Y q", {QVar("q")})
m1  == I("m1",  "DefCalMeasure", "DEFCAL MEASURE 0 addr", "DEFCAL MEASURE 0 addr:\n\tX 3\n", {Q(0), Q(3)})
m1b == I("m1b", "DefCalMeasure", "DEFCAL MEASURE 0 addr", "DEFCAL MEASURE 0 addr:\n\tX 0\n", {Q(0)})
m2  == I("m2",  "DefCalMeasure", "DEFCAL MEASURE 1 addr", "DEFCAL MEASURE 1 addr:\n\tX 1\n", {Q(1)})
g1  == I("g1",  "DefGate", "G", "DEFGATE G AS MATRIX:\n    1, 0\n    0, 1\n", {})
g1b == I("g1b", "DefGate", "G", "DEFGATE G AS MATRIX:\n    0, 1\n    1, 0\n", {})
g2  == I("g2",  "DefGate", "H", "DEFGATE H AS MATRIX:\n    1, 0\n    0, 1\n", {})
gs  == I("gs",  "DefGate", "S", "DEFGATE S a AS SEQUENCE:\n    X a\n", {})
k1  == I("k1",  "DefCircuit", "C", "DEFCIRCUIT C a:\n    X a\n", {})
k1b == I("k1b", "DefCircuit", "C", "DEFCIRCUIT C a:\n    Y a\n", {})
k2  == I("k2",  "DefCircuit", "D", "DEFCIRCUIT D a:\n    X a\n", {})
b0  == GateOn("X", <<Q(0)>>)
b1  == GateOn("X", <<Q(1)>>)
b12 == GateOn("CNOT", <<Q(1), Q(2)>>)
bn  == I("bn",  "Body", "-", "NOP", {})
bp  == I("bp",  "Body", "-", "PRAGMA note", {})
bs  == GateOn("S", <<Q(1)>>)
\* qubit placeholders (identity semantics; numbered in order of creation): on their own, mixed with a fixed
\* qubit, two in one gate, and inside a calibration body (which resolution does not touch)
p1  == GateOn("X", <<QPh(1)>>)
p2f == GateOn("CNOT", <<QPh(2), Q(0)>>)
p12 == GateOn("CNOT", <<QPh(1), QPh(2)>>)
cp  == I("cp",  "DefCal", "DEFCAL Z 0", "DEFCAL Z 0:\n    Y {ph3}", {Q(0), QPh(3)})
br  == I("br",  "Body", "-", "RESET", {})

\* near-misses of add_instruction's routing: pragmas whose name is not exactly EXTERN (they stay in the body, even
\* with the first argument of a real extern pragma), a circuit named like a gate definition, a declaration named
\* like a frame, frames differing only in qubit order, a measure calibration without target next to one with a
\* target, and a frame re-defined with a strict subset of its attributes (f1c, then f1)
px1 == I("px1", "Body", "-", "PRAGMA extern foo \"(x : INTEGER)\"", {})
px2 == I("px2", "Body", "-", "PRAGMA Extern foo \"(x : INTEGER)\"", {})
px3 == I("px3", "Body", "-", "PRAGMA EXTERNS foo \"(x : INTEGER)\"", {})
kg  == I("kg",  "DefCircuit", "G", "DEFCIRCUIT G a:\n    X a\n", {})
dx  == I("dx",  "Declare", "x", "DECLARE x BIT[1]", {})
f4  == I("f4",  "DefFrame", "1 0 \"x\"", "DEFFRAME 1 0 \"x\":\n    HARDWARE-OBJECT: \"h1\"", {})
f1c == I("f1c", "DefFrame", "0 \"x\"", "DEFFRAME 0 \"x\":\n    HARDWARE-OBJECT: \"h1\"\n    INITIAL-FREQUENCY: 1000000", {})
mn  == I("mn",  "DefCalMeasure", "DEFCAL MEASURE 0", "DEFCAL MEASURE 0:\n\tX 0\n", {Q(0)})
Routing == {e1, px1, px2, px3, g1, kg, dx, f1, f1c, f3, f4, m1b, mn, c1b, b0}

Full  == {e1, e1b, e2, d1, d1b, d2, f1, f1b, f2, f3, w1, w1b, w2, c1, c1b, c2, m1, m1b, m2,
          g1, g1b, g2, k1, k1b, k2, b0, bn, bp}
\* frames, calibrations, an extern pragma, a declaration and body instructions: the tables with their own
\* container types (FrameSet, CalibrationSet, ExternPragmaMap) and one plain IndexMap
Small == {f1, f1b, f2, c1, c1b, c2, e1, e1b, d1, b0, b1}
Tiny  == {f1, f1b, f2, c1, c1b, e1, b0, b1}
\* one key with two values in every table, and two body instructions: every line of AddAssign
AllTables == {e1, e1b, d1, d1b, f1, f1b, w1, w1b, c1, c1b, m1, m1b, g1, g1b, k1, k1b, b0, b1}
\* C10: no DEFFRAME, no frame operands, no variable qubits (DESIGN §6 C10: outside the alphabet)
C10Alpha == {c1, c1b, c2, m1, m1b, gs, d1, b0, b1, b12, bs, bn}
PhAlpha  == {p1, p2f, p12, cp, b1}
\* custom qubit resolvers: the empty map, maps leaving some placeholder unresolved, a total map, and one that
\* sends a placeholder onto a fixed qubit already in use
Resolvers == {<<>>, <<[ph |-> 1, n |-> 5]>>, <<[ph |-> 2, n |-> 0]>>, <<[ph |-> 1, n |-> 5], [ph |-> 2, n |-> 6]>>,
              <<[ph |-> 1, n |-> 4], [ph |-> 2, n |-> 4], [ph |-> 3, n |-> 7]>>}

Prof(name, alphaA, maxA, alphaB, maxB, tail, alphaT, minT, maxT) ==
  [name |-> name, alphaA |-> alphaA, maxA |-> maxA, alphaB |-> alphaB, maxB |-> maxB,
   tail |-> tail, alphaT |-> alphaT, minT |-> minT, maxT |-> maxT]

ConcatTail == {"ConcatAB", "ConcatBA", "AddAssignAB"}
PhTail == {"Add", "Resolve", "ResolveWith", "Clone", "CloneWithoutBody", "AddAssignBA", "ConcatAB", "FromListing"}
AllTail == {"Add", "ConcatAB", "ConcatBA", "AddAssignAB", "AddAssignBA", "ConcatBB", "Clone", "CloneWithoutBody",
            "CloneWithoutBodySelf", "Resolve", "ResolveWith", "FromListing", "Filter", "Supplied", "New", "AddMany"}

QuickC10Tail == AllTail \ {"ConcatBB", "AddMany"}
Profiles ==
  CASE Prop = "C08" /\ Tier = "quick" ->
         {Prof("adds", Full \ {bn, bp}, 3, {}, 0, {}, {}, 0, 0),
          \* B + A is the mirror image of A + B here (same alphabet and bound on both sides): thorough only
          Prof("concat", Tiny, 2, Tiny, 2, {"ConcatAB", "AddAssignAB"}, {}, 1, 1),
          Prof("routing", Routing, 3, {}, 0, {}, {}, 0, 0)}
    [] Prop = "C08" /\ Tier = "thorough" ->
         {Prof("adds", Full, 3, {}, 0, {}, {}, 0, 0),
          Prof("deep", Small, 4, {}, 0, {}, {}, 0, 0),
          Prof("deeper", Tiny, 5, {}, 0, {}, {}, 0, 0),
          Prof("routing", Routing, 4, {}, 0, {}, {}, 0, 0),
          Prof("concat", Small, 2, Small, 2, ConcatTail, {}, 1, 1)}
    [] Prop = "C09" /\ Tier = "quick" ->
         {Prof("adds", Full, 3, {}, 0, {}, {}, 0, 0),
          Prof("bulk", Small, 2, {}, 0, {"FromListing", "AddMany"}, Small, 1, 2),
          Prof("routing", Routing, 3, {}, 0, {}, {}, 0, 0)}
    [] Prop = "C09" /\ Tier = "thorough" ->
         {Prof("adds", Full, 3, {}, 0, {}, {}, 0, 0),
          Prof("deep", Small, 4, {}, 0, {}, {}, 0, 0),
          Prof("bulk", Small, 3, {}, 0, {"FromListing", "AddMany"}, Small, 1, 2),
          Prof("routing", Routing, 4, {}, 0, {}, {}, 0, 0)}
    [] Prop = "C10" /\ Tier = "quick" ->
         {Prof("ops", {}, 0, {}, 0, QuickC10Tail \ {"ResolveWith", "New"}, C10Alpha \ {d1, bn, c2, b12}, 3, 3),
          Prof("ph", {}, 0, {}, 0, PhTail, PhAlpha \ {b1}, 3, 3)}
    [] Prop = "C10" /\ Tier = "thorough" ->
         {Prof("ops", {}, 0, {}, 0, AllTail \ {"ResolveWith"}, C10Alpha, 3, 3),
          Prof("ph", {}, 0, {}, 0, PhTail, PhAlpha, 4, 4),
          Prof("ops4", {}, 0, {}, 0, QuickC10Tail \ {"Clone", "ResolveWith", "New", "Supplied"}, {c1, c1b, b0}, 4, 4)}
    [] Prop = "C10" /\ Tier = "deep" ->          \* for -simulate: random sequences of 8 operations
         {Prof("ops8", {}, 0, {}, 0, AllTail, C10Alpha \cup PhAlpha, 8, 8)}
    [] Prop = "C11" /\ Tier = "quick" ->
         {Prof("pairs", Tiny, 2, Tiny, 2, {"ConcatAB", "AddAssignAB"}, {}, 1, 1),
          Prof("tables", AllTables, 1, AllTables, 1, {"ConcatAB", "AddAssignAB"}, {}, 1, 1),
          Prof("routing", Routing, 2, Routing, 1, {"ConcatAB", "AddAssignAB"}, {}, 1, 1)}
    [] Prop = "C11" /\ Tier = "thorough" ->
         {Prof("pairs", Small, 2, Small, 2, {"ConcatAB", "AddAssignAB"}, {}, 1, 1),
          Prof("pairs3", Tiny, 3, Tiny, 2, {"ConcatAB", "AddAssignAB"}, {}, 1, 1),
          Prof("tables", AllTables, 2, AllTables, 1, {"ConcatAB", "AddAssignAB"}, {}, 1, 1),
          Prof("routing", Routing, 2, Routing, 1, {"ConcatAB", "AddAssignAB"}, {}, 1, 1)}

----------------------------------------------------------------------------
VARIABLES prof, phase, hist
mcvars == <<regs, prof, phase, hist>>

\* sections a profile leaves empty are skipped
NextPhase(pr, ph) == CASE ph = "start" -> IF pr.maxA > 0 THEN "A" ELSE IF pr.maxB > 0 THEN "B" ELSE IF pr.maxT > 0 THEN "T" ELSE "done"
                       [] ph = "A"     -> IF pr.maxB > 0 THEN "B" ELSE IF pr.maxT > 0 THEN "T" ELSE "done"
                       [] ph = "B"     -> IF pr.maxT > 0 THEN "T" ELSE "done"
                       [] ph = "T"     -> "done"
MCInit == Init /\ prof \in Profiles /\ phase = NextPhase(prof, "start") /\ hist = <<>>

Count(sec) == Cardinality({n \in DOMAIN hist : hist[n].sec = sec})

\* projection of the written register after a step: what the harness compares with the real program
Proj(R, r) ==
  IF R[r].opaque THEN [opaque |-> TRUE]
  ELSE [listing |-> Ids(Listing(R[r])), used |-> R[r].used, len |-> LenOf(R[r]), excl |-> R[r].excl,
        eq |-> IF Known(R["A"]) /\ Known(R["B"]) THEN Some(EqProg(R["A"], R["B"])) ELSE None]

Do(o, sec) == /\ Step(o)
              /\ hist' = Append(hist, [o |-> o, sec |-> sec, post |-> Proj(regs', o.dst)])
              /\ UNCHANGED <<prof, phase>>

AddA == /\ phase = "A" /\ Count("A") < prof.maxA
        /\ \E i \in prof.alphaA : Do([ev |-> "Add", dst |-> "A", i |-> i], "A")
AddB == /\ phase = "B" /\ Count("B") < prof.maxB
        /\ \E i \in prof.alphaB : Do([ev |-> "Add", dst |-> "B", i |-> i], "B")

InTail(kind) == phase = "T" /\ Count("T") < prof.maxT /\ kind \in prof.tail
Other(r) == IF r = "A" THEN "B" ELSE "A"
K(r) == Known(regs[r])

\* adds in the tail section go to A; B is reached through the other operations
TAdd      == InTail("Add") /\ K("A") /\ \E i \in prof.alphaT : Do([ev |-> "Add", dst |-> "A", i |-> i], "T")
TAddManyAll  == InTail("AddMany") /\ K("A") /\ Do([ev |-> "AddMany", dst |-> "A", is |-> Listing(regs["A"])], "T")  \* re-add everything
TAddManyPair == InTail("AddMany") /\ K("A") /\
                \E i, j \in prof.alphaT : /\ IsDef(i) /\ i.k = j.k /\ i.key = j.key /\ i # j   \* a redefinition inside one call
                                         /\ Do([ev |-> "AddMany", dst |-> "A", is |-> <<i, j>>], "T")
TConcat   == phase = "T" /\ \E c \in {<<"ConcatAB", "A", "A", "B">>, <<"ConcatBA", "A", "B", "A">>, <<"ConcatBB", "B", "B", "B">>} :
                InTail(c[1]) /\ K(c[3]) /\ K(c[4]) /\ Do([ev |-> "Concat", dst |-> c[2], a |-> c[3], b |-> c[4]], "T")
TAddAssign == phase = "T" /\ \E c \in {<<"AddAssignAB", "A", "B">>, <<"AddAssignBA", "B", "A">>} :
                InTail(c[1]) /\ K(c[2]) /\ K(c[3]) /\ Do([ev |-> "AddAssign", dst |-> c[2], b |-> c[3]], "T")
TClone    == InTail("Clone") /\ K("A") /\ Do([ev |-> "Clone", dst |-> "B", a |-> "A"], "T")
TCloneWithoutBody ==
             phase = "T" /\ \E c \in {<<"CloneWithoutBody", "B">>, <<"CloneWithoutBodySelf", "A">>} :
                InTail(c[1]) /\ K("A") /\ Do([ev |-> "CloneWithoutBody", dst |-> c[2], a |-> "A"], "T")
\* resolve_placeholders(): the default resolver, as documented
TResolve  == InTail("Resolve") /\ \E r \in Regs : K(r) /\
                Do([ev |-> "Resolve", mode |-> "default", dst |-> r, map |-> DefaultResolver(regs[r])], "T")
\* resolve_placeholders_with_custom_resolvers(default target resolver, any partial map)
TResolveWith == InTail("ResolveWith") /\ K("A") /\
                \E m \in Resolvers : Do([ev |-> "Resolve", mode |-> "custom", dst |-> "A", map |-> m], "T")
TFromListing == InTail("FromListing") /\ K("A") /\
                \E r \in Regs : Do([ev |-> "FromInstructions", dst |-> r, is |-> Listing(regs["A"])], "T")
TFilter   == InTail("Filter") /\ K("A") /\
             \E d \in {<<"Body">>, <<"DefCal", "DefCalMeasure">>} : Do([ev |-> "Filter", dst |-> "B", a |-> "A", drop |-> d], "T")
TNew      == InTail("New") /\ Do([ev |-> "New", dst |-> "A"], "T")
\* operations whose result only the real code can supply: the written register becomes unknown to the
\* generator (the harness judges the property on the real result); the recorded traces cover what follows
TSupplied == InTail("Supplied") /\ K("A") /\
             \E n \in SuppliedNames : Do([ev |-> "Opaque", name |-> n, dst |-> "B", a |-> "A"], "T")

\* close the current section (the tail section only once it has its minimum number of operations)
Advance == /\ phase \in {"A", "B", "T"}
           /\ (phase = "T" => Count("T") >= prof.minT /\ (Count("T") = prof.maxT \/ prof.minT < prof.maxT))
           /\ phase' = NextPhase(prof, phase) /\ UNCHANGED <<regs, prof, hist>>

MCNext == AddA \/ AddB \/ Advance \/ TAdd \/ TAddManyAll \/ TAddManyPair \/ TConcat \/ TAddAssign \/ TClone \/ TCloneWithoutBody
          \/ TResolve \/ TResolveWith \/ TFromListing \/ TFilter \/ TNew \/ TSupplied
MCSpec == MCInit /\ [][MCNext]_mcvars

----------------------------------------------------------------------------
\* the registers are a function of the history: re-running it gives the same values (C08 "building a program
\* from the same sequence always yields the same text"), whatever the hash seed of the second build
RECURSIVE Run(_, _)
Run(R, h) == IF h = <<>> THEN R ELSE Run(Apply(R, Head(h).o, Deviations), Tail(h))
Deterministic == LET R == Run([r \in Regs |-> EmptyProg], hist) IN
                 \A r \in Regs : Known(regs[r]) =>
                    \A s \in HashSeeds : JoinLines(ListingH(R[r], s)) = ToQuil(regs[r])

\* in-place replacement, as an action property over the add steps
ReplaceInPlace == [][(Len(hist') = Len(hist) + 1 /\ hist'[Len(hist')].o.ev = "Add") =>
                       LET o == hist'[Len(hist')].o IN ReplaceInPlaceStep(regs[o.dst], regs'[o.dst], o.i)]_mcvars

\* one line per finished history
OpOut(n) == hist[n].o @@ [post |-> hist[n].post]
Emit == phase = "done" =>
          PrintT(<<"CASE", ToJson([prof |-> prof.name, ops |-> [n \in DOMAIN hist |-> OpOut(n)]])>>)
=============================================================================
