SPECIFICATION Spec
CONSTANT MaxLen = 6
CONSTANT RawPrint = FALSE
CONSTANT SwapPasses = FALSE
CONSTANT NoBackslashEsc = FALSE
INVARIANT RoundTrip
INVARIANT NeverEof
INVARIANT ScanAgrees
INVARIANT EscParity
INVARIANT InsideString
INVARIANT UnescapeInverts
INVARIANT TwoPassIsDecode
INVARIANT BodyClosed
INVARIANT Emit
CHECK_DEADLOCK FALSE
