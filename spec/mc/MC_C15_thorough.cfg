SPECIFICATION Spec
CONSTANT Ns = {2, 3, 4}
CONSTANT AllGates = {"I", "X", "Y", "Z", "H", "S", "T", "CNOT", "CCNOT", "CZ", "SWAP", "CSWAP", "ISWAP", "RX", "RY", "RZ", "PHASE", "CPHASE", "CPHASE00", "CPHASE01", "CPHASE10", "PSWAP"}
CONSTANT DeepGates = {"X", "H", "RX", "PHASE", "CNOT", "CPHASE"}
CONSTANT ShallowDepth = 2
CONSTANT MaxDepth = 3
CONSTANT MaxProg = 0
INVARIANT CurWellFormed
INVARIANT CurModifierLaw
INVARIANT CurMonomial
INVARIANT CurUnitary
INVARIANT CurDaggerTwice
INVARIANT Emit
CHECK_DEADLOCK FALSE
