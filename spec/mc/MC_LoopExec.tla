---------------------------- MODULE MC_LoopExec ----------------------------
(* Bounded exploration of LoopExec on the model's own construction: every body over the opaque
   instructions Ops up to MaxBody, every n in 0..MaxIter, counter cell index from Cells; the interpreter
   then runs Wrap(body, n, cell, "L") to completion. *)
EXTENDS LoopExec, Json
CONSTANTS MaxBody, MaxIter, Ops, Cells, Shapes

\* Besides the construction of wrap_in_loop ("ideal") the interpreter is run on an equivalent loop built
\* from the other jump instructions ("unless": exit test with JUMP-UNLESS, back edge with JUMP, explicit
\* HALT), so that every interpreter rule is exercised and checked against the same property.
AltWrap(b, n, c, t) ==
  IF n < 2 THEN Wrap(b, n, c, t)
  ELSE <<Move(c, 0), Arith("ADD", c, n), Label(t)>> \o b
       \o <<Arith("SUB", c, 1), JumpUnless("end", c), Jump(t), Label("end"), Halt>>
Build(shape, b, n, c) == IF shape = "ideal" THEN Wrap(b, n, c, "L") ELSE AltWrap(b, n, c, "L")

Bodies == UNION {[1..len -> {Op(o) : o \in Ops}] : len \in 0..MaxBody}
\* the counter region is declared long enough to hold the cell that is used: INTEGER[c + 1]
Decl(c) == [key |-> "DECLARE ctr", text |-> "DECLARE ctr INTEGER[" \o ToString(c + 1) \o "]", sec |-> 1]
Defs0 == <<[key |-> "PRAGMA EXTERN f", text |-> "PRAGMA EXTERN f", sec |-> 0],
           [key |-> "DECLARE ro", text |-> "DECLARE ro BIT[2]", sec |-> 1],
           [key |-> "DEFGATE G", text |-> "DEFGATE G", sec |-> 5]>>
Defs1 == <<[key |-> "DECLARE ctr", text |-> "DECLARE ctr REAL[3]", sec |-> 1],
           [key |-> "DECLARE ro", text |-> "DECLARE ro BIT[2]", sec |-> 1],
           [key |-> "DEFGATE G", text |-> "DEFGATE G", sec |-> 5]>>

Init == \E b \in Bodies : \E n \in 0..MaxIter : \E c \in Cells : \E sh \in Shapes : Load(b, n, Build(sh, b, n, c))
Next == Exec
Spec == Init /\ [][Next]_vars /\ WF_vars(Next)

\* the counter cell of this run (the MOVE of the ideal construction names it)
cell == IF iters >= 2 THEN prog[1].cell ELSE 0

\* model-only invariant of the ideal construction: the counter counts the rounds still to run
\* (n >= 2; positions: 1 MOVE, 2 LABEL, 3..len+2 body, len+3 SUB, len+4 JUMP-WHEN)
CounterTracksRounds ==
  (Deviations = {} /\ iters >= 2 /\ prog = Wrap(body, iters, cell, "L") /\ ~halted /\ pc >= 2) =>
     LET len  == Len(body)
         done == iters - Read(cell)          \* completed decrements
     IN /\ pc <= len + 3 => Len(executed) = done * len + (IF pc >= 3 THEN pc - 3 ELSE 0)
        /\ pc = len + 4  => Len(executed) = done * len
        /\ Read(cell) \in 0..iters

\* definitions: wrapping declares the counter for n >= 2 and changes nothing else
DefsPreservedModel ==
  \A defs \in {Defs0, Defs1} :
     LET w == WrapDefs(defs, iters, Decl(cell)) IN
     /\ iters < 2 => w = defs
     /\ iters >= 2 => /\ \A m \in DOMAIN defs : defs[m].key # "DECLARE ctr" => \E k \in DOMAIN w : w[k] = defs[m]
                      /\ \A k \in DOMAIN w : w[k] = Decl(cell) \/ \E m \in DOMAIN defs : defs[m] = w[k]
                      /\ \E k \in DOMAIN w : w[k] = Decl(cell)
                      /\ \A k \in 1..(Len(w) - 1) : w[k].sec <= w[k + 1].sec

Emit == (halted /\ prog = Wrap(body, iters, cell, "L")) => PrintT(<<"CASE", ToJson([body |-> Texts(body), n |-> iters, cell |-> cell,
                                            wrapped |-> prog, executed |-> executed])>>)
=============================================================================
