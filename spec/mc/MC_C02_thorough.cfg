SPECIFICATION Spec
CONSTANT Family = "C02"
CONSTANT MaxLen = 2
CONSTANT Depth = 2
CONSTANT SmallLeaves = TRUE
CONSTANT MagTable <- Mags
CONSTANT CallImmediatePlain = FALSE
CONSTANT JudgeAmbiguousDelay = FALSE
INVARIANT InstrRoundTrip
INVARIANT InstrPrintStable
INVARIANT ParseNormalIsFixpoint
INVARIANT Placeholders
INVARIANT PlaceholdersProgram
INVARIANT ProgramOfValues
INVARIANT NoAmbiguousDelay
INVARIANT ProgramLevel
INVARIANT ListingFixpoint
INVARIANT GateParamValue
INVARIANT Emit
CHECK_DEADLOCK FALSE
