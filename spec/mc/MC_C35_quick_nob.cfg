SPECIFICATION Spec
CONSTANT MaxLen = 2
CONSTANT Sel = "large"
CONSTANT Variant = "noB"
INVARIANT KeepsExactly
INVARIANT SchedulesEqual
INVARIANT FunctionAgrees
INVARIANT Idempotent
INVARIANT ExpandInv
INVARIANT ScanInv
INVARIANT RestrictedSummaries
INVARIANT Emit
CHECK_DEADLOCK FALSE
