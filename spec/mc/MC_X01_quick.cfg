SPECIFICATION Spec
CONSTANT MaxLen = 5
CONSTANT Fuel = 14
CONSTANT LabelArmAlwaysAddsOne = FALSE
INVARIANT FaithfulInv
INVARIANT Emit
CHECK_DEADLOCK FALSE
