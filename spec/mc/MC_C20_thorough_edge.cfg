SPECIFICATION Spec
CONSTANT Deviations = {}
CONSTANT Family = "edge"
CONSTANT W1 = 1
CONSTANT W2 = 2
CONSTANT W3 = 2
CONSTANT FilterLevel = 2
CONSTANT BodyLevel = 1
INVARIANT Refines
INVARIANT ErrorsExact
INVARIANT OthersUntouched
INVARIANT KeepSetExact
INVARIANT KeepOrder
INVARIANT ReachAgree
INVARIANT MapWellFormed
INVARIANT MapNames
INVARIANT FullyExpanded
INVARIANT GenStackDiscipline
INVARIANT GenDepthBounded
INVARIANT NotStuck
INVARIANT FrameInvariant
INVARIANT Emit
CHECK_DEADLOCK FALSE
