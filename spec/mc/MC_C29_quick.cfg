SPECIFICATION Spec
CONSTANT MaxK = 4
CONSTANT StepwiseFold = FALSE
CONSTANT MaxLen = 4
CONSTANT NQ = 4
CONSTANT MaxArity = 4
CONSTANT WithUnsupported = TRUE
CONSTANT Canonical = TRUE
INVARIANT LastExact
INVARIANT LoopEdges
INVARIANT LoopIsFold
INVARIANT PathFoldMax
INVARIANT DPIsChains
INVARIANT FoldIsWalk
INVARIANT Antitone
INVARIANT FailsExact
INVARIANT Emit
CHECK_DEADLOCK FALSE
