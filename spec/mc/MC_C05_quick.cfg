SPECIFICATION Spec
CONSTANT MaxFree = 4
CONSTANT Budget = 1
INVARIANT AutomatonGrammar
INVARIANT AutomatonExact
INVARIANT RejectOrExact
INVARIANT AccumulatorSane
INVARIANT Emit
CHECK_DEADLOCK FALSE
