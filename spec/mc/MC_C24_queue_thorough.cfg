SPECIFICATION Spec
CONSTANT MaxLen = 8
CONSTANT Instances = {"frame"}
INVARIANT DepsExact
INVARIANT ConflictsOrdered
INVARIANT DepsJustified
INVARIANT ReadsUnordered
INVARIANT DepsEarlier
INVARIANT PendingExact
INVARIANT CellExact
INVARIANT Emit
CHECK_DEADLOCK FALSE
