SPECIFICATION Spec
CONSTANT MaxLen = 5
CONSTANT Sel = "small"
CONSTANT Variant = "all"
INVARIANT KeepsExactly
INVARIANT SchedulesEqual
INVARIANT FunctionAgrees
INVARIANT Idempotent
INVARIANT ExpandInv
INVARIANT ScanInv
INVARIANT RestrictedSummaries
INVARIANT Emit
CHECK_DEADLOCK FALSE
