SPECIFICATION Spec
CONSTANT KindSet = {"flat", "gaussian", "drag_gaussian", "erf_square", "hermite_gaussian", "raised_cosine", "boxcar_kernel"}
CONSTANT Rates = {"1", "4", "1e9"}
CONSTANT Ks = {0, 3}
CONSTANT MisKs = {1}
CONSTANT PadLevel = 1
CONSTANT ScaleVals = {"0", "2", "-1/2"}
CONSTANT PhaseVals = {"1/8", "1/2"}
CONSTANT DetVals = {"0", "nz"}
INVARIANT TypeOK
INVARIANT LengthExact
INVARIANT ShapeRight
INVARIANT MisalignedErr
INVARIANT Emit
PROPERTY LengthConstantUnderSupply
PROPERTY NoWayBack
CHECK_DEADLOCK FALSE
