SPECIFICATION Spec
CONSTANT MaxFrames = 4
CONSTANT Wide = FALSE
INVARIANT Agrees
INVARIANT SetLaws
INVARIANT NoneForOthers
INVARIANT Emit
CHECK_DEADLOCK FALSE
