------------------------- MODULE MC_QuilPrintExpr -------------------------
(* Expression layer of QuilPrint on its own: every tree up to depth D over the leaf alphabet is printed,
   re-lexed and re-read.  (Scratch-level companion of MC_QuilPrint; also used by the C04 plan.) *)
EXTENDS QuilPrint, Json
CONSTANT D

M1  == Mag("1", "1.0", FALSE, 1)
M2  == Mag("2", "2.0", FALSE, 2)
Mh  == Mag("0.5", "0.5", FALSE, 505)
Mb  == Mag("1e20", "1.0e20", FALSE, 77)
Mags == {M0, M1, M2, Mh, Mb}

Leaves == { Real(FALSE, M0), Real(FALSE, M2), Real(TRUE, M1), Real(FALSE, Mh), Real(FALSE, Mb),
            Imag(FALSE, M2), Imag(TRUE, M2), Num(Part(FALSE, M1), Part(FALSE, M2)), Num(Part(TRUE, M1), Part(TRUE, M2)),
            Pi, EVar("x"), Addr(MRef("m", 0)), Addr(MRef("Theta", 1)) }
Ops == {"+", "-", "*", "/", "^"}
RECURSIVE Trees(_)
Trees(d) == IF d = 0 THEN Leaves
            ELSE LET S == Trees(d - 1) IN
                 S \cup { Inf(o, a, b) : o \in Ops, a \in S, b \in S } \cup { Neg(a) : a \in S }
                   \cup { Pos(a) : a \in S } \cup { Fn("sin", a) : a \in S }
VARIABLE cur
Init == cur \in Trees(D)
Next == UNCHANGED cur
ExprRoundTrip == LET r == ReadWholeExpr(Toks(ShowE(cur))) IN r.ok /\ r.v = CanonE(cur)
ExprLexStable == LexStable(ShowE(cur))
CanonKeepsValue == Val(CanonE(cur)) = Val(cur)
CanonNormal == ParseNormalE(CanonE(cur)) /\ (ParseNormalE(cur) => CanonE(cur) = cur)
SecondPrintSame == ParseNormalE(cur) => Text(ShowE(CanonE(cur))) = Text(ShowE(cur))
=============================================================================
