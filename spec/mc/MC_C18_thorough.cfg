SPECIFICATION FairSpec
CONSTANT MaxDepth = 8
CONSTANT AsBuiltRemove = FALSE
CONSTANT Families = {"struct", "param", "mrec"}
CONSTANT StructGates = {"X", "Y", "W", "Z"}
CONSTANT StructDeclare = FALSE
CONSTANT StructW2 = TRUE
CONSTANT Wide = TRUE
CONSTANT MapModes = {FALSE}
CONSTANT AllowUnboundedGrowth = FALSE
CONSTRAINT DepthConstraint
PROPERTY EveryExpansionTerminates
INVARIANT DepthBelowBound
INVARIANT NoDuplicateOnStack
INVARIANT ErrIffReentry
INVARIANT StackLinked
INVARIANT Refines
INVARIANT Emit
CHECK_DEADLOCK FALSE
