---------------------------- MODULE MC_QuilPrint ----------------------------
(* Bounded generator for QuilPrint.  A program is grown one instruction at a time from the alphabet of the
   selected family (so that all TLC workers share the enumeration); in the "done" state the properties are
   evaluated and one CASE line is printed.

   Family = "C02": values the parser can produce (parse-normal expressions, no placeholders); programs of one
                   instruction over the whole alphabet, and of two instructions over the pair alphabet
                   (definitions of every table, redefinitions, body instructions) -- listing order and
                   byte-identical second serialization.
   Family = "C04": values only the constructors can build: signed / two-part literals, prefix plus, DELAY
                   without frame names, CALL immediates, placeholders -- single instructions.             *)
EXTENDS QuilPrint, Json
CONSTANTS Family, MaxLen, Depth, SmallLeaves

Str(s) == s     \* readability: quoted-string values are character sequences
S_rf  == <<"r", "f">>
S_sp  == <<"a", " ", "b">>
S_q   == <<"a", "\"", "b", "\\">>
S_ext == <<"(", "x", " ", ":", " ", "I", "N", "T", "E", "G", "E", "R", ")">>

M1  == Mag("1", "1.0", FALSE, 1)
M2  == Mag("2", "2.0", FALSE, 2)
M3  == Mag("3", "3.0", FALSE, 3)
Mh  == Mag("0.5", "0.5", FALSE, 505)
Mb  == Mag("1e20", "1.0e20", FALSE, 77)
Ms  == Mag("1e-7", "1.0e-7", FALSE, 78)
Mags == {M0, M1, M2, M3, Mh, Mb, Ms}

R(m) == Real(FALSE, m)
Cplx(rn, rm, in, im) == Num(Part(rn, rm), Part(in, im))
Q0 == Fixed(0)   Q1 == Fixed(1)   Qq == QVar("q")   Qp == QPh(1)   Q17 == Fixed(17)
MR == MRef("ro", 0)   MT == MRef("Theta", 1)   M12 == MRef("ro", 12)    \* indices / qubits >= 10: a change of radix shows
X == EVar("x")

\* ---- expressions
NormalLeaves == { R(M0), R(M2), R(Mh), R(Mb), Imag(FALSE, M2), Pi, X, Addr(MT) }
ApiLeaves    == { Real(TRUE, M1), Imag(TRUE, M2), Cplx(FALSE, M1, FALSE, M2), Cplx(TRUE, M1, TRUE, M2) }
Ops == {"+", "-", "*", "/", "^"}
\* at depth 2 (thorough) only the two operators whose printing is delicate (the spaced minus, the right-associative
\* caret that binds tighter than a prefix minus) are combined, over the small leaf set, to keep the run in minutes
OpsAt(d) == IF d >= 2 THEN {"-", "^"} ELSE Ops
RECURSIVE Trees(_, _, _)
Trees(leaves, d, withPos) ==
  IF d = 0 THEN leaves
  ELSE LET S == Trees(leaves, d - 1, withPos) IN
       S \cup { Inf(o, a, b) : o \in OpsAt(d), a \in S, b \in S } \cup { Neg(a) : a \in S }
         \cup (IF withPos THEN { Pos(a) : a \in S } ELSE {}) \cup { Fn("sin", a) : a \in S }

\* the awkward spellings of DESIGN §6 C02 as parse trees: 2^3^2, 1-2-3, -2^2, 2*-3, -(-pi), (1+2i)*x, cis(-m)
AwkwardNormal ==
  { Inf("^", R(M2), Inf("^", R(M3), R(M2))), Inf("-", Inf("-", R(M1), R(M2)), R(M3)), Inf("-", R(M1), Inf("-", R(M2), R(M3))),
    Inf("^", Neg(R(M2)), R(M2)), Inf("*", R(M2), Neg(R(M3))), Neg(Neg(Pi)), Neg(Inf("+", R(M1), Imag(FALSE, M2))),
    Inf("*", Inf("+", R(M1), Imag(FALSE, M2)), X), Fn("cis", Neg(Addr(MT))), Inf("/", Pi, R(M2)), Inf("-", X, R(M1)),
    Neg(Fn("sqrt", R(M2))), Inf("+", Neg(X), Addr(MR)), R(Ms), Fn("exp", Inf("*", Imag(FALSE, M1), Pi)) }
AwkwardApi ==
  { Real(TRUE, M1), Imag(TRUE, M2), Cplx(FALSE, M1, FALSE, M2), Cplx(TRUE, M1, TRUE, M2), Pos(X), Pos(Neg(X)),
    Neg(Real(TRUE, M1)), Neg(Cplx(FALSE, M1, FALSE, M2)), Inf("*", Cplx(FALSE, M1, FALSE, M2), X),
    Inf("^", Pi, Cplx(FALSE, M1, TRUE, M2)), Inf("-", Real(TRUE, M2), Real(TRUE, M1)), Fn("sin", R(M1)),
    Inf("+", Fn("sin", R(M1)), R(M2)), Neg(Pos(X)), Pos(Fn("sin", R(M1))), Pos(R(M2)) }

Api == Family = "C04"
\* expressions used in every expression position
ES == IF Api THEN AwkwardApi \cup {R(M2), Pi, X, Addr(MT), Addr(M12)} ELSE AwkwardNormal \cup {R(M2), R(Mh), Pi, X, Addr(MT), Addr(M12)}
\* expressions used in the one exhaustive position (gate parameter)
SmallNormal == { R(M2), Imag(FALSE, M2), Pi, X }
SmallApi    == { R(M2), Real(TRUE, M1), Cplx(FALSE, M1, TRUE, M2), X }
ParamTrees == Trees(IF SmallLeaves THEN (IF Api THEN SmallApi ELSE SmallNormal)
                    ELSE (IF Api THEN NormalLeaves \cup ApiLeaves ELSE NormalLeaves), Depth, Api)
E1 == R(M2)   E2 == Inf("/", Pi, R(M2))

\* ---- operands of instructions
Frames == { Frame(S_rf, <<Q0>>), Frame(S_q, <<Q17, Qq>>) }
F0 == Frame(S_rf, <<Q0>>)
Wfs(e) == { WfInv("flat", None, <<>>), WfInv("flat", None, <<KV("duration", e), KV("iq", E1)>>),
            WfInv("my", Some("wf"), <<KV("a", e)>>) }
W0 == WfInv("flat", None, <<KV("duration", E1)>>)
RealOperands == { OInt(FALSE, "1"), OInt(TRUE, "10"), OReal(FALSE, "2.0"), OReal(TRUE, "0.5"), OReal(FALSE, "1e20"), OMRef(MT), OMRef(M12) }
IntOperands  == { OInt(FALSE, "1"), OInt(TRUE, "3"), OMRef(MT) }
Targets == { TFixed("end"), TFixed("loop-1") }
GX == Gate("X", <<>>, <<Q0>>, <<>>)
GRXq == Gate("RX", <<EVar("a")>>, <<Qq>>, <<>>)

\* ---- the alphabet, kind by kind (every Instruction variant and every shape of its operands)
Gates == { Gate("RX", <<e>>, <<Q0>>, <<>>) : e \in ParamTrees }
          \cup { Gate(n, ps, qs, ms) : n \in {"X", "Sin2"}, ps \in {<<>>, <<E1, E2>>}, qs \in {<<Q0>>, <<Q1, Qq>>},
                                       ms \in {<<>>, <<"DAGGER">>, <<"CONTROLLED", "DAGGER">>, <<"FORKED">>} }
DefCals == { DefCal("RX", ps, qs, ms, body) :
               ps \in {<<>>, <<EVar("theta")>>} \cup {<<e>> : e \in ES}, qs \in {<<Q0>>, <<Qq, Q1>>},
               ms \in {<<>>, <<"CONTROLLED">>}, body \in {<<GX>>} }
           \cup { DefCal("CZ", <<>>, <<Q0, Q1>>, ms, body) :
               ms \in {<<>>, <<"DAGGER", "CONTROLLED">>},
               body \in { <<Pulse(TRUE, F0, W0), FrameExpr("SHIFT-PHASE", F0, E2)>>, <<Fence(<<Q0, Q1>>), GX, Nop>> } }
DefCalMeasures == { DefCalMeasure(n, q, tg, body) : n \in {None, Some("fast")}, q \in {Q0, Qq}, tg \in {None, Some("addr")},
                      body \in { <<Capture(TRUE, F0, W0, MRef("addr", 0))>>, <<GX, Pulse(FALSE, F0, W0)>> } }
DefCircuits == { DefCircuit("BELL", ps, qv, body) : ps \in {<<>>, <<"a", "b">>}, qv \in {<<>>, <<"q", "r">>},
                   body \in { <<GRXq>>, <<GX, Measure(None, Qq, Some(MR))>> } }
DefGates == { DefGate("G", <<>>, SpecMatrix(<<<<R(M1), R(M0)>>, <<R(M0), e>>>>)) : e \in ES }
            \cup { DefGate("G", <<"a">>, SpecMatrix(<<<<Fn("cos", EVar("a"))>>>>)),
                   DefGate("P", <<>>, SpecPerm(<<0, 1>>)), DefGate("P", <<>>, SpecPerm(<<0, 2, 1, 3>>)),
                   DefGate("SQ", <<"t">>, SpecSeq(<<"a", "b">>, <<Gate("H", <<>>, <<QVar("a")>>, <<>>),
                                                                Gate("RX", <<EVar("t")>>, <<QVar("b")>>, <<>>)>>)),
                   DefGate("SQ", <<>>, SpecSeq(<<"a">>, <<Gate("H", <<>>, <<QVar("a")>>, <<>>)>>)) }
            \cup { DefGate("U", ps, SpecPauli(<<"p", "q">>, ts)) : ps \in {<<>>, <<"t">>},
                     ts \in { <<PTerm("XY", e, <<"p", "q">>)>> : e \in ES } \cup
                            { <<PTerm("Z", E1, <<"q">>), PTerm("II", E2, <<"q", "p">>)>> } }
DefWaveforms == { DefWaveform("wf", ext, ps, m) : ext \in {None, Some("sub")}, ps \in {<<>>, <<"t">>},
                    m \in { <<e>> : e \in ES } \cup { <<E1, Imag(FALSE, M2), E2>> } }
DefFrames == { DefFrame(f, as) : f \in Frames,
                 as \in { <<AttrStr("DIRECTION", <<"t", "x">>)>> } \cup
                        { <<AttrExpr("INITIAL-FREQUENCY", e), AttrStr("HARDWARE-OBJECT", S_q)>> : e \in ES } }
Declares == { Declare("ro", "BIT", 1, None), Declare("Theta", "REAL", 16, None), Declare("o", "OCTET", 2, None),
              Declare("b", "INTEGER", 2, Some(Sharing("ro", <<>>))),
              Declare("b", "REAL", 1, Some(Sharing("Theta", <<Offset(12, "BIT"), Offset(1, "REAL")>>))) }
Measures == { Measure(n, q, tg) : n \in {None, Some("fast")}, q \in {Q0, Qq, Q17}, tg \in {None, Some(MR), Some(M12)} }
Resets == { Reset(None), Reset(Some(Q0)), Reset(Some(Qq)) }
\* C02 is about texts: the text of an ambiguous DELAY is a fine input, but the program it parses to is not the
\* value it was printed from, so it is left to the C04 family (and to the driver's corpus)
AllDelays == { Delay(e, fs, qs) : e \in ES, fs \in {<<>>, <<S_rf>>, <<S_q, S_rf>>}, qs \in {<<Q0>>, <<Q0, Q1>>, <<Qq>>} }
             \cup (IF Api THEN { Delay(e, <<>>, <<>>) : e \in ES } ELSE {})
Delays == IF Api THEN AllDelays ELSE { d \in AllDelays : ~DelayAmbiguous(d) }
Fences == { Fence(<<>>), Fence(<<Q0>>), Fence(<<Q0, Qq>>), Fence(<<Q17, Q1>>) }
Pulses == { Pulse(b, f, w) : b \in BOOLEAN, f \in Frames, w \in Wfs(E2) } \cup UNION { { Pulse(TRUE, F0, w) : w \in Wfs(e) } : e \in ES }
Captures == { Capture(b, f, w, m) : b \in BOOLEAN, f \in Frames, w \in Wfs(E2), m \in {MR} }
RawCaptures == { RawCapture(b, F0, e, m) : b \in BOOLEAN, e \in ES, m \in {MR, MT} }
FrameExprs == { FrameExpr(c, f, e) : c \in FrameExprCmds, f \in {F0}, e \in ES }
              \cup { FrameExpr("SET-PHASE", f, E2) : f \in Frames }
Swaps == { SwapPhases(f, g) : f \in Frames, g \in Frames }
Classical == { Arith(o, MR, s) : o \in ArithOps, s \in RealOperands } \cup { Logic(o, MT, s) : o \in LogicOps, s \in IntOperands }
             \cup { Move(MR, s) : s \in RealOperands } \cup { Unary(o, MT) : o \in UnaryOps }
             \cup { Compare(o, MR, MT, s) : o \in CompareOps, s \in RealOperands }
             \cup { Convert(MR, MT), Exchange(MT, MR), Load(MR, "Theta", MRef("i2", 0)) }
             \cup { Store("Theta", MR, s) : s \in RealOperands }
Control == { Label(x) : x \in Targets } \cup { Jump(x) : x \in Targets }
           \cup { JumpWhen(x, MR) : x \in Targets } \cup { JumpUnless(x, MT) : x \in Targets } \cup { Halt, Nop, Wait }
Pragmas == { Pragma("foo", as, d) : as \in {<<>>, <<PArgId("a-b"), PArgInt("1")>>, <<PArgInt("20")>>}, d \in {None, Some(S_sp), Some(S_q)} }
           \cup { Pragma("EXTERN", <<PArgId("f")>>, Some(S_ext)), Include(S_rf), Include(S_q) }
CallImms == { R(M2), R(Mh), Imag(FALSE, M2), R(Mb) } \cup (IF Api THEN { Real(TRUE, M1), Cplx(FALSE, M1, FALSE, M2), Imag(TRUE, M2), Cplx(TRUE, M1, TRUE, M2) } ELSE {})
Calls == { Call("f", <<>>), Call("f", <<CArgId("ro")>>), Call("f", <<CArgMRef(MT), CArgId("Theta")>>) }
         \cup { Call("f", <<CArgId("ro"), CArgImm(v)>>) : v \in CallImms } \cup { Call("f", <<CArgImm(v), CArgMRef(MR)>>) : v \in CallImms }

\* placeholders (C04): a qubit or label placeholder at EVERY position of every list and nesting level, and the same
\* shapes with a fixed qubit / label in its place (the converse: no placeholder => serialization succeeds).
\* PhQ / PhT are the placeholder (TRUE) or its resolved counterpart (FALSE).
PhQ(ph) == IF ph THEN Qp ELSE Fixed(5)
PhT(ph) == IF ph THEN TPh(1) ELSE TFixed("resolved")
\* instructions that hold exactly one qubit / label (placed inside bodies and programs)
PhInstrs(ph) ==
  { Gate("X", <<>>, <<PhQ(ph)>>, <<>>), Measure(None, PhQ(ph), Some(MR)), Reset(Some(PhQ(ph))),
    Pulse(TRUE, Frame(S_rf, <<PhQ(ph)>>), W0), Jump(PhT(ph)), JumpWhen(PhT(ph), MR), JumpUnless(PhT(ph), MR), Label(PhT(ph)) }
\* a list of three with x at position k and fillers elsewhere
At3(k, x, f1, f2) == CASE k = 1 -> <<x, f1, f2>> [] k = 2 -> <<f1, x, f2>> [] k = 3 -> <<f1, f2, x>>
At2(k, x, f) == IF k = 1 THEN <<x, f>> ELSE <<f, x>>
PhShapes(ph) ==
  \* every position of a qubit list
  UNION { { Gate("CCNOT", <<>>, At3(k, PhQ(ph), Q0, Q1), <<>>), Fence(At3(k, PhQ(ph), Q0, Q1)),
            Delay(E1, <<S_rf>>, At3(k, PhQ(ph), Q0, Q1)), Delay(E1, <<>>, At3(k, PhQ(ph), Q0, Q1)),
            DefCal("CCNOT", <<>>, At3(k, PhQ(ph), Q0, Qq), <<>>, <<GX>>) } : k \in 1..3 }
  \cup UNION { { Pulse(TRUE, Frame(S_rf, At2(k, PhQ(ph), Q0)), W0), Capture(TRUE, Frame(S_rf, At2(k, PhQ(ph), Q0)), W0, MR),
                 RawCapture(TRUE, Frame(S_rf, At2(k, PhQ(ph), Q0)), E1, MR), FrameExpr("SET-PHASE", Frame(S_rf, At2(k, PhQ(ph), Q0)), E1),
                 SwapPhases(F0, Frame(S_rf, At2(k, PhQ(ph), Q0))), SwapPhases(Frame(S_rf, At2(k, PhQ(ph), Q0)), F0),
                 DefFrame(Frame(S_rf, At2(k, PhQ(ph), Q0)), <<AttrStr("DIRECTION", <<"t", "x">>)>>) } : k \in 1..2 }
  \cup { Measure(None, PhQ(ph), Some(MR)), Reset(Some(PhQ(ph))), DefCalMeasure(None, PhQ(ph), None, <<GX>>),
         Label(PhT(ph)), Jump(PhT(ph)), JumpWhen(PhT(ph), MR), JumpUnless(PhT(ph), MR) }
  \* every position of every kind of body, every kind of instruction that can hold a placeholder
  \cup UNION { { DefCal("X", <<>>, <<Q0>>, <<>>, At3(k, i, GX, Nop)),
                 DefCalMeasure(None, Q0, Some("addr"), At3(k, i, GX, Nop)),
                 DefCircuit("c", <<>>, <<"q">>, At3(k, i, GX, Nop)) } : k \in 1..3, i \in PhInstrs(ph) }
\* whole programs: the placeholder in the first, second or last instruction (and one level down, inside a body)
PhPrograms(ph) ==
  UNION { { At3(k, i, GX, Nop) : k \in 1..3 } : i \in PhInstrs(ph) }
  \cup { At3(k, DefCalMeasure(None, Q0, None, <<GX, Gate("Y", <<>>, <<PhQ(ph)>>, <<>>)>>), GX, Halt) : k \in 1..3 }
WithPlaceholders == PhShapes(TRUE) \cup PhShapes(FALSE)
PlaceholderPrograms == PhPrograms(TRUE) \cup PhPrograms(FALSE)

\* ---- list shapes: every list-valued field occurs with 0, 1, 2 and 3 elements somewhere in the alphabet, with
\* pairwise distinct elements (a separator or prefix written only before the first / after the last element, two
\* elements swapped, or a middle element dropped must change the text).  The kind-by-kind sets above vary the
\* operands; this set varies the lengths.
Q2 == Fixed(2)
A == EVar("a")   B == EVar("b")   C == EVar("c")
GV(n, q) == Gate(n, <<>>, <<QVar(q)>>, <<>>)
ListShapes ==
  { Gate("GA3", <<E1, E2, X>>, <<Q0, Q1, Qq>>, <<"CONTROLLED", "DAGGER", "FORKED">>),
    Gate("GA1", <<X>>, <<Q17>>, <<"FORKED">>),
    DefCal("GA3", <<A, E2, C>>, <<Q0, Qq, Q1>>, <<"DAGGER", "CONTROLLED", "DAGGER">>, <<GX, Nop, Fence(<<>>)>>),
    DefCal("GA2", <<A, B>>, <<Q0>>, <<"FORKED">>, <<GX>>),
    DefCalMeasure(Some("fast"), Qq, Some("addr"), <<GX, Nop, Fence(<<Qq>>)>>),
    DefCircuit("CI1", <<"a">>, <<"q">>, <<GRXq>>),
    DefCircuit("CI2", <<"a", "b">>, <<"q", "r">>, <<GRXq, GV("Y", "r")>>),
    DefCircuit("CI3", <<"a", "b", "c">>, <<"q", "r", "s">>, <<GRXq, GV("Y", "r"), GV("Z", "s")>>),
    DefGate("GA1", <<"a">>, SpecMatrix(<<<<A>>>>)),
    DefGate("GA2", <<"a", "b">>, SpecMatrix(<<<<A, B>>, <<R(M0), R(M1)>>>>)),
    DefGate("GA3", <<"a", "b", "c">>, SpecMatrix(<<<<A, B, C>>, <<R(M0), R(M1), R(M2)>>, <<C, B, A>>>>)),
    DefGate("PE1", <<>>, SpecPerm(<<0>>)), DefGate("PE3", <<>>, SpecPerm(<<2, 0, 1>>)),
    DefGate("UA1", <<"a", "b">>, SpecPauli(<<"p">>, <<PTerm("X", Inf("*", A, B), <<"p">>)>>)),
    DefGate("UA3", <<"a", "b", "c">>, SpecPauli(<<"p", "q", "r">>,
              <<PTerm("XYZ", A, <<"p", "q", "r">>), PTerm("Z", B, <<"q">>), PTerm("IX", C, <<"r", "p">>)>>)),
    DefGate("SQ1", <<"a", "b">>, SpecSeq(<<"x">>, <<Gate("RX", <<A>>, <<QVar("x")>>, <<>>)>>)),
    DefGate("SQ3", <<"a", "b", "c">>, SpecSeq(<<"x", "y", "z">>,
              <<Gate("RX", <<A>>, <<QVar("x")>>, <<>>), Gate("CNOT", <<>>, <<QVar("y"), QVar("z")>>, <<>>),
                Gate("U", <<B, C>>, <<QVar("z"), QVar("x"), QVar("y")>>, <<>>)>>)),
    DefWaveform("wf", None, <<"a", "b">>, <<A, B>>), DefWaveform("wf", Some("sub"), <<"a", "b", "c">>, <<A, B, C, E1>>),
    DefFrame(F0, <<AttrStr("DIRECTION", <<"t", "x">>), AttrExpr("INITIAL-FREQUENCY", E2), AttrStr("HARDWARE-OBJECT", S_sp)>>),
    Declare("b", "BIT", 4, Some(Sharing("ro", <<Offset(1, "BIT")>>))),
    Declare("b", "BIT", 4, Some(Sharing("ro", <<Offset(1, "BIT"), Offset(2, "REAL"), Offset(10, "OCTET")>>))),
    Delay(E1, <<S_rf, S_sp, S_q>>, <<Q0, Q1, Qq>>), Delay(E1, <<>>, <<Q0, Q1, Q2>>), Fence(<<Q0, Q1, Qq>>),
    Pulse(TRUE, Frame(S_rf, <<Q0, Q1, Qq>>), WfInv("flat", None, <<KV("a", E1), KV("b", E2), KV("c", X)>>)),
    Capture(FALSE, Frame(S_rf, <<Q2, Q0, Q1>>), WfInv("flat", Some("x"), <<KV("a", E1), KV("b", X)>>), MT),
    SwapPhases(Frame(S_rf, <<Q0, Q1>>), Frame(S_sp, <<Q1, Q2, Q0>>)),
    Pragma("foo", <<PArgId("a"), PArgInt("1"), PArgId("b")>>, Some(S_sp)), Pragma("foo", <<PArgId("a")>>, None),
    Call("f", <<CArgId("ro"), CArgMRef(MT), CArgImm(R(M2)), CArgId("Theta")>>), Call("f", <<CArgImm(R(Mh)), CArgImm(R(M2)), CArgImm(Imag(FALSE, M2))>>) }

Alphabet == Gates \cup DefCals \cup DefCalMeasures \cup DefCircuits \cup DefGates \cup DefWaveforms \cup DefFrames
            \cup Declares \cup Measures \cup Resets \cup Delays \cup Fences \cup Pulses \cup Captures \cup RawCaptures
            \cup FrameExprs \cup Swaps \cup Classical \cup Control \cup Pragmas \cup Calls \cup ListShapes
            \cup (IF Api THEN WithPlaceholders ELSE {})

\* second instruction of a two-instruction program: one or two values per table, redefinitions, body instructions
PairAlphabet ==
  { Declare("ro", "BIT", 1, None), Declare("ro", "REAL", 2, None), Declare("Theta", "REAL", 3, None),
    DefFrame(Frame(S_rf, <<Q0>>), <<AttrStr("DIRECTION", <<"t", "x">>)>>),
    DefFrame(Frame(S_rf, <<Q0>>), <<AttrStr("DIRECTION", <<"r", "x">>)>>),
    DefFrame(Frame(S_q, <<Q0, Qq>>), <<AttrExpr("INITIAL-FREQUENCY", E2)>>), DefFrame(Frame(S_rf, <<Q1>>), <<AttrExpr("SAMPLE-RATE", E1)>>),
    DefWaveform("wf", None, <<>>, <<E1>>), DefWaveform("wf", None, <<>>, <<E2>>), DefWaveform("wf", Some("sub"), <<"t">>, <<E1>>),
    DefCal("RX", <<E2>>, <<Q0>>, <<>>, <<GX>>), DefCal("RX", <<E2>>, <<Q0>>, <<>>, <<Nop>>), DefCal("RX", <<E2>>, <<Q0>>, <<"CONTROLLED">>, <<GX>>),
    DefCalMeasure(None, Q0, Some("addr"), <<GX>>), DefCalMeasure(None, Q0, Some("addr"), <<Nop>>), DefCalMeasure(Some("fast"), Qq, None, <<GX>>),
    DefGate("P", <<>>, SpecPerm(<<0, 1>>)), DefGate("P", <<>>, SpecPerm(<<1, 0>>)), DefGate("G", <<>>, SpecMatrix(<<<<E1>>>>)),
    DefCircuit("BELL", <<>>, <<"q">>, <<GRXq>>), DefCircuit("BELL", <<>>, <<"q">>, <<GX>>), DefCircuit("C2", <<"a">>, <<>>, <<GX>>),
    Pragma("EXTERN", <<PArgId("f")>>, Some(S_ext)), Pragma("EXTERN", <<PArgId("g")>>, Some(S_ext)), Pragma("foo", <<>>, None),
    GX, Gate("RX", <<E2>>, <<Q0>>, <<>>), Measure(None, Q0, Some(MR)), Label(TFixed("end")), Jump(TFixed("end")), Halt,
    Move(MR, OReal(FALSE, "2.0")), Delay(E1, <<>>, <<Q0>>), Fence(<<>>), Reset(None), Include(S_rf), Call("f", <<CArgId("ro")>>) }

VARIABLES prog, phase
vars == <<prog, phase>>
Init == prog = <<>> /\ phase = "gen"
Grow == /\ phase = "gen" /\ Len(prog) < MaxLen
        /\ \E i \in (IF Len(prog) = 0 /\ MaxLen = 1 THEN Alphabet ELSE IF Len(prog) = 0 THEN Alphabet \cup PairAlphabet ELSE PairAlphabet) :
             /\ (Len(prog) >= 1 => prog[1] \in PairAlphabet)
             /\ prog' = Append(prog, i)
        /\ UNCHANGED phase
\* C04: a whole program at once (placeholder placements at program level)
GrowProgram == /\ phase = "gen" /\ Api /\ prog = <<>>
               /\ \E p \in PlaceholderPrograms : prog' = p
               /\ UNCHANGED phase
Done == /\ phase = "gen" /\ prog # <<>> /\ phase' = "done" /\ UNCHANGED prog
Next == Grow \/ GrowProgram \/ Done
Spec == Init /\ [][Next]_vars

Single == phase = "done" /\ Len(prog) = 1
\* ---------------------------------------------------------------- invariants
\* the known finding of C04 (CALL immediates that print with a sign or as a sum) is judged with the intended
\* reader (CallImmediatePlain = FALSE); spec/mc/findings/MC_C04_CallImmediatePlain.cfg shows the code as built
InstrRoundTrip == Single /\ ~HasPh(prog[1]) /\ (JudgeAmbiguousDelay \/ ~DelayAmbiguous(prog[1])) => PrintsAndReadsBack(prog[1])
InstrPrintStable == Single /\ ~HasPh(prog[1]) /\ ~Api => PrintIsStable(prog[1])
ParseNormalIsFixpoint == Single /\ ~Api => CanonI(prog[1]) = prog[1]
\* the writer leaves no DELAY whose printed duration can also be read as further qubits and a shorter duration
NoAmbiguousDelay == Single => ~DelayAmbiguous(prog[1])
Placeholders == Single => PlaceholderIffFails(prog[1])
\* the same law for a program: Program::to_quil fails exactly when some instruction holds a placeholder
PlaceholdersProgram == phase = "done" => ((\E n \in DOMAIN prog : HasPh(prog[n])) <=> HasDbg(PrintProgram(prog)))
\* and a placeholder-free program of the C04 family reads back (instruction by instruction)
ProgramOfValues == phase = "done" /\ Api /\ Len(prog) >= 2 /\ ~(\E n \in DOMAIN prog : HasPh(prog[n])) =>
                     Bind(ReadProgram(PrintProgram(prog)), LAMBDA r : r.ok /\ r.v = CanonIs(prog))
\* (for a single instruction InstrRoundTrip and InstrPrintStable say the same)
ProgramLevel == phase = "done" /\ ~Api /\ Len(prog) >= 2 => ProgramRoundTrip(prog)
ListingFixpoint == phase = "done" => ListingIsFixpoint(prog)
GateParamValue == Single /\ prog[1].k = "Gate" /\ prog[1].params # <<>> =>
                    Val(CanonE(prog[1].params[1])) = Val(prog[1].params[1])

Emit == phase = "done" =>
  PrintT(<<"CASE", ToJson([prog |-> prog,
                           ambiguous |-> \E n \in DOMAIN prog : DelayAmbiguous(prog[n]),
                           text |-> Text(PrintProgram(prog)),
                           listing |-> Listing(prog),
                           t1 |-> Text(PrintProgram(Listing(prog))),
                           has_ph |-> \E n \in DOMAIN prog : HasPh(prog[n])])>>)
=============================================================================
