SPECIFICATION Spec
CONSTANT MaxN = 5
CONSTANT MaxK = 4
CONSTANT FullN = 3
INVARIANT ArrIsPermutation
INVARIANT WindowInRange
INVARIANT SweepBound
INVARIANT LiftRefinesIdx
INVARIANT LiftRefinesFull
INVARIANT Emit
CHECK_DEADLOCK FALSE
