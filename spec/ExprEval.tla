------------------------------- MODULE ExprEval -------------------------------
(***************************************************************************)
(* Evaluation, variable substitution and memory-reference listing of       *)
(* quil-rs expressions (property C13):                                     *)
(*   Expression::evaluate              quil-rs/src/expression/mod.rs       *)
(*   Expression::substitute_variables  quil-rs/src/expression/mod.rs       *)
(*   Expression::memory_references and the MemoryReferences iterator       *)
(*                                     quil-rs/src/program/memory.rs       *)
(*                                                                         *)
(* `Eval` (partial: Incomplete iff a variable or memory cell is missing)   *)
(* is defined in ExprAbs, `Subst` here; both are the recursive definitions *)
(* of the code.  The memory-reference iterator is *not* recursive in the   *)
(* code: it keeps an explicit stack of delayed right operands and walks    *)
(* single children in place.  It is modelled as the state machine it is,   *)
(* one action per iteration of its inner loop, and checked against the     *)
(* declarative left-to-right listing `MemRefs`.                            *)
(***************************************************************************)
EXTENDS ExprAbs

\* Deviations (off in shipped configurations; they show that the invariants have teeth):
\*   "IteratorDropsRight":   the iterator does not push the right operand of an infix node
\*   "SubstSkipsFunctionArg": substitution does not descend into function-call arguments
\*   "SubstReplacesSameNamedRegion": substitution also replaces name[0] by the image of the variable `name`
CONSTANT Deviations

\* substitute_variables: sigma is a function from variable names to expressions
RECURSIVE Subst(_, _)
Subst(e, sigma) ==
  CASE e.t = "fn"  -> (IF "SubstSkipsFunctionArg" \in Deviations THEN e ELSE Fn(e.f, Subst(e.e, sigma)))
    [] e.t = "inf" -> Inf(Subst(e.l, sigma), e.op, Subst(e.r, sigma))
    [] e.t \in {"neg", "pos"} -> [t |-> e.t, e |-> Subst(e.e, sigma)]
    [] e.t = "var" -> (IF e.v \in DOMAIN sigma THEN sigma[e.v] ELSE e)
    [] e.t = "addr" /\ "SubstReplacesSameNamedRegion" \in Deviations /\ e.m.index = 0 /\ e.m.name \in DOMAIN sigma
         -> sigma[e.m.name]
    [] OTHER -> e

\* the memory references of an expression, left to right (with repetitions)
RECURSIVE MemRefs(_)
MemRefs(e) ==
  CASE e.t = "addr" -> <<e.m>>
    [] e.t \in {"num", "pi", "var"} -> <<>>
    [] e.t \in {"neg", "pos", "fn"} -> MemRefs(e.e)
    [] e.t = "inf" -> MemRefs(e.l) \o MemRefs(e.r)

----------------------------------------------------------------------------
\* MemoryReferences<'a> { stack: Vec<&'a Expression> } and Iterator::next

VARIABLES tree,    \* the expression
          phase,   \* "gen" | "iter" | "done"
          stack,   \* self.stack (last element = top)
          cur,     \* the local `expr` of the inner loop: Some(e) while inside `loop`, None between pops
          outs     \* the references yielded so far (by successive calls of next())
vars == <<tree, phase, stack, cur, outs>>

Fresh(e) == tree = e /\ phase = "gen" /\ stack = <<>> /\ cur = None /\ outs = <<>>

\* Expression::memory_references: MemoryReferences { stack: vec![self] }
Start == /\ phase = "gen" /\ phase' = "iter" /\ stack' = <<tree>> /\ cur' = None
         /\ UNCHANGED <<tree, outs>>
\* 'stack_search: while let Some(mut expr) = stack.pop()
Pop == /\ phase = "iter" /\ IsNone(cur) /\ stack # <<>>
       /\ cur' = Some(stack[Len(stack)]) /\ stack' = SubSeq(stack, 1, Len(stack) - 1)
       /\ UNCHANGED <<tree, phase, outs>>
\* Number | PiConstant | Variable => continue 'stack_search
Skip == /\ phase = "iter" /\ IsSome(cur) /\ cur.some.t \in {"num", "pi", "var"}
        /\ cur' = None /\ UNCHANGED <<tree, phase, stack, outs>>
\* Address(reference) => return Some(reference)   (the next call of next() resumes with the stack)
Yield == /\ phase = "iter" /\ IsSome(cur) /\ cur.some.t = "addr"
         /\ outs' = Append(outs, cur.some.m) /\ cur' = None
         /\ UNCHANGED <<tree, phase, stack>>
\* FunctionCall | Prefix => expr = expression
Descend == /\ phase = "iter" /\ IsSome(cur) /\ cur.some.t \in {"fn", "neg", "pos"}
           /\ cur' = Some(cur.some.e) /\ UNCHANGED <<tree, phase, stack, outs>>
\* Infix => stack.push(right); expr = left
Split == /\ phase = "iter" /\ IsSome(cur) /\ cur.some.t = "inf"
         /\ stack' = (IF "IteratorDropsRight" \in Deviations THEN stack ELSE Append(stack, cur.some.r))
         /\ cur' = Some(cur.some.l) /\ UNCHANGED <<tree, phase, outs>>
\* the stack is empty: None (and, the iterator being fused, None for ever)
Finish == /\ phase = "iter" /\ IsNone(cur) /\ stack = <<>>
          /\ phase' = "done" /\ UNCHANGED <<tree, stack, cur, outs>>

Iterate == Start \/ Pop \/ Skip \/ Yield \/ Descend \/ Split \/ Finish

----------------------------------------------------------------------------
\* The property (C13)

\* what is still to be listed: the current expression, then the stack from the top down
RECURSIVE Pending(_)
Pending(st) == IF st = <<>> THEN <<>> ELSE MemRefs(st[Len(st)]) \o Pending(SubSeq(st, 1, Len(st) - 1))
IterInvariant == phase = "iter" =>
   outs \o (IF IsSome(cur) THEN MemRefs(cur.some) ELSE <<>>) \o Pending(stack) = MemRefs(tree)

\* "the memory references an expression reports are exactly the memory addresses occurring in it"
Count(s, x) == Cardinality({k \in DOMAIN s : s[k] = x})
SameBag(s, u) == Len(s) = Len(u) /\ \A x \in Range(s) \cup Range(u) : Count(s, x) = Count(u, x)
MemRefsExact   == phase = "done" => SameBag(outs, MemRefs(tree)) /\ Range(outs) = AddrsOf(tree)
MemRefsInOrder == phase = "done" => outs = MemRefs(tree)      \* more than the statement asks

\* assignments: every partial assignment of two variables and two regions of length <= 2
VarNames == {"x", "y"}
RhoVals  == [x |-> 123, y |-> 777]
SigmaNum == [x |-> GNum(5), y |-> GNum(9)]                    \* substitution by numbers
SigmaExp == [x |-> Inf(Var("y"), "+", GNum(1)), y |-> Addr("x", 1)]   \* substitution by expressions
\* the region x shares its name with the variable x: substitution and lookup must keep the two name spaces apart
MemVals  == [x |-> <<901, 333>>, n |-> <<12, 640>>]
Restrict(f, D) == [v \in D |-> f[v]]
\* region -> length: x absent / 0 / 1 / 2, n absent / 0 / 1 (the alphabets use x[0], x[1], n[0])
MemShapes == { s \in UNION { [D -> 0..2] : D \in SUBSET {"x", "n"} } : "n" \in DOMAIN s => s["n"] <= 1 }
MemOf(shape) == [r \in DOMAIN shape |-> SubSeq(MemVals[r], 1, shape[r])]
\* the substitution laws do not depend on how definedness comes about: three memories suffice there
\* (nothing, everything, x[0] only); definedness itself is checked on every shape
FewShapes == { s \in MemShapes : s = << >> \/ s = [x |-> 2, n |-> 1] \/ s = [x |-> 1] }

\* "evaluation succeeds iff every variable and referenced memory cell is supplied"
Supplied(e, vdom, shape) ==
   /\ VarsOf(e) \subseteq vdom
   /\ \A a \in AddrsOf(e) : a.name \in DOMAIN shape /\ a.index < shape[a.name]
DefinedAt(e) == \A vdom \in SUBSET VarNames, shape \in MemShapes :
                   (Eval(e, Restrict(RhoVals, vdom), MemOf(shape)) # Incomplete) <=> Supplied(e, vdom, shape)

\* "substituting variables by numbers and then evaluating gives the same value as evaluating with those
\*  numbers bound to the variables" (the substituted value wins over a binding of the same name)
SubstEvalAt(e) ==
  \A sdom \in SUBSET VarNames, vdom \in SUBSET VarNames, shape \in FewShapes :
     LET sigma == Restrict(SigmaNum, sdom)
         rho   == Restrict(RhoVals, vdom)
         both  == [v \in sdom \cup vdom |-> IF v \in sdom THEN SigmaNum[v].n ELSE RhoVals[v]]
     IN Eval(Subst(e, sigma), rho, MemOf(shape)) = Eval(e, both, MemOf(shape))

\* more than the statement asks: substitution by expressions composes with evaluation, and the free names
\* of the result are those of the input with the substituted variables replaced by the names of their images
SubstComposeAt(e) ==
  \A sdom \in SUBSET VarNames, vdom \in SUBSET VarNames, shape \in FewShapes :
     LET sigma == Restrict(SigmaExp, sdom)
         rho   == Restrict(RhoVals, vdom)
         mem   == MemOf(shape)
         img   == [v \in sdom |-> Eval(SigmaExp[v], rho, mem)]
         used  == VarsOf(e) \cap sdom
         lhs   == Eval(Subst(e, sigma), rho, mem)
     IN IF \E v \in used : img[v] = Incomplete THEN lhs = Incomplete
        ELSE lhs = Eval(e, [v \in used \cup vdom |-> IF v \in used THEN img[v] ELSE RhoVals[v]], mem)
SubstNamesAt(e) ==
  \A sdom \in SUBSET VarNames :
     LET s == Subst(e, Restrict(SigmaExp, sdom)) IN
     /\ VarsOf(s) = (VarsOf(e) \ sdom) \cup UNION { VarsOf(SigmaExp[v]) : v \in VarsOf(e) \cap sdom }
     /\ AddrsOf(s) = AddrsOf(e) \cup UNION { AddrsOf(SigmaExp[v]) : v \in VarsOf(e) \cap sdom }
     /\ Subst(e, Restrict(SigmaExp, {})) = e

Defined      == phase = "done" => DefinedAt(tree)
SubstEval    == phase = "done" => SubstEvalAt(tree)
SubstCompose == phase = "done" => SubstComposeAt(tree)
SubstNames   == phase = "done" => SubstNamesAt(tree)
=============================================================================
