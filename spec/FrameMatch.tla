----------------------------- MODULE FrameMatch -----------------------------
(***************************************************************************)
(* Which frames an instruction uses and blocks:                            *)
(*   DefaultHandler::matching_frames =                                     *)
(*     Instruction::default_frame_match_condition  (instruction/mod.rs)    *)
(*     + FrameSet::filter / get_matching_keys_for_condition (frame.rs)     *)
(*                                                                         *)
(* Two descriptions that must agree:                                       *)
(*  - the mechanism of the code: each instruction kind builds a pair of    *)
(*    FrameMatchCondition trees (`Conds`), which a small recursive         *)
(*    evaluator (`Eval`) resolves against the defined frames, and `Filter` *)
(*    removes the used frames from the blocked ones;                       *)
(*  - the Quil-T rules as property C26 words them (`UsedBy`, `BlockedBy`), *)
(*    written directly as set comprehensions over the defined frames.      *)
(*                                                                         *)
(* A frame is [name |-> string, qubits |-> sequence of qubit numbers]      *)
(* (identity includes the qubit order, as FrameIdentifier's equality       *)
(* does).  Instructions are records with a kind tag k:                     *)
(*   Pulse / Capture / RawCapture  [blocking, frame, ...]                  *)
(*   SetFrequency SetPhase SetScale ShiftFrequency ShiftPhase [frame, ...] *)
(*   SwapPhases [frame_1, frame_2]   Fence [qubits]                        *)
(*   Delay [qubits, frame_names, ...]   Reset [qubit : Opt]                *)
(* every other kind has no frame semantics (matching_frames = None).       *)
(* `uq` is the program's used-qubit set (only a bare RESET looks at it).   *)
(***************************************************************************)
EXTENDS Abs, TLC

QS(f) == Range(f.qubits)
PlayKinds   == {"Pulse", "Capture", "RawCapture"}
UpdateKinds == {"SetFrequency", "SetPhase", "SetScale", "ShiftFrequency", "ShiftPhase"}
FrameKindsOfInstr == PlayKinds \cup UpdateKinds \cup {"SwapPhases", "Fence", "Delay", "Reset"}
HasFrameSemantics(i) == i.k \in FrameKindsOfInstr

----------------------------------------------------------------------------
\* The mechanism: condition trees and their evaluator.

CAll            == [c |-> "All"]
CNames(ns)      == [c |-> "AnyOfNames", names |-> ns]
CAnyQ(qs)       == [c |-> "AnyOfQubits", qs |-> qs]
CExactQ(qs)     == [c |-> "ExactQubits", qs |-> qs]
CSpecific(f)    == [c |-> "Specific", frame |-> f]
CAnd(cs)        == [c |-> "And", cs |-> cs]
COr(cs)         == [c |-> "Or", cs |-> cs]

RECURSIVE Eval(_, _)
Eval(cond, F) ==
    CASE cond.c = "All"         -> F
      [] cond.c = "AnyOfNames"  -> {f \in F : f.name \in cond.names}
      [] cond.c = "AnyOfQubits" -> {f \in F : QS(f) \cap cond.qs # {}}
      [] cond.c = "ExactQubits" -> {f \in F : QS(f) = cond.qs}
      [] cond.c = "Specific"    -> IF cond.frame \in F THEN {cond.frame} ELSE {}
      [] cond.c = "And"         -> IF cond.cs = <<>> THEN {}     \* reduce(..).unwrap_or_default()
                                   ELSE {f \in Eval(cond.cs[1], F) :
                                           \A n \in 2..Len(cond.cs) : f \in Eval(cond.cs[n], F)}
      [] cond.c = "Or"          -> UNION {Eval(cond.cs[n], F) : n \in DOMAIN cond.cs}

\* default_frame_match_condition: [used |-> Opt(cond), blocked |-> Opt(cond)]
Conds(i, uq) ==
    CASE i.k \in PlayKinds ->
           [used |-> Some(CSpecific(i.frame)),
            blocked |-> IF i.blocking THEN Some(CAnyQ(QS(i.frame))) ELSE None]
      [] i.k = "Delay" ->
           [used |-> Some(IF i.frame_names = <<>> THEN CExactQ(Range(i.qubits))
                          ELSE CAnd(<<CExactQ(Range(i.qubits)), CNames(Range(i.frame_names))>>)),
            blocked |-> None]
      [] i.k = "Fence" ->
           [used |-> Some(IF i.qubits = <<>> THEN CAll ELSE CAnyQ(Range(i.qubits))), blocked |-> None]
      [] i.k = "Reset" ->
           LET qs == IF IsSome(i.qubit) THEN {i.qubit.some} ELSE uq IN
           [used |-> Some(CExactQ(qs)), blocked |-> Some(CAnyQ(qs))]
      [] i.k \in UpdateKinds -> [used |-> Some(CSpecific(i.frame)), blocked |-> None]
      [] i.k = "SwapPhases" ->
           [used |-> Some(COr(<<CSpecific(i.frame_1), CSpecific(i.frame_2)>>)), blocked |-> None]

\* FrameSet::filter
Filter(conds, F) ==
    LET used == IF IsSome(conds.used) THEN Eval(conds.used.some, F) ELSE {}
        blk  == IF IsSome(conds.blocked) THEN Eval(conds.blocked.some, F) ELSE {}
    IN [used |-> used, blocked |-> IF used # {} THEN blk \ used ELSE blk]

\* DefaultHandler::matching_frames: None for instructions without frame semantics
Matching(i, F, uq) == IF HasFrameSemantics(i) THEN Some(Filter(Conds(i, uq), F)) ELSE None

----------------------------------------------------------------------------
\* The rules of the property, written directly.

SharesQubit(f, g) == QS(f) \cap QS(g) # {}
ResetQubits(i, uq) == IF IsSome(i.qubit) THEN {i.qubit.some} ELSE uq

UsedBy(i, F, uq) ==
    CASE i.k \in PlayKinds \cup UpdateKinds -> {f \in F : f = i.frame}                  \* exactly its own frame
      [] i.k = "SwapPhases" -> {f \in F : f = i.frame_1 \/ f = i.frame_2}               \* exactly its frames
      [] i.k = "Fence"  -> IF i.qubits = <<>> THEN F                                    \* all frames ...
                           ELSE {f \in F : \E q \in Range(i.qubits) : q \in QS(f)}      \* ... or those on its qubits
      [] i.k = "Delay"  -> {f \in F : /\ QS(f) = Range(i.qubits)                        \* exactly its qubits
                                      /\ (i.frame_names # <<>> => f.name \in Range(i.frame_names))}
      [] i.k = "Reset"  -> {f \in F : QS(f) = ResetQubits(i, uq)}                       \* exactly that qubit
      [] OTHER -> {}
BlockedBy(i, F, uq) ==
    CASE i.k \in PlayKinds -> IF i.blocking THEN {f \in F : f # i.frame /\ SharesQubit(f, i.frame)} ELSE {}
      [] i.k = "Reset" -> {f \in F : QS(f) \cap ResetQubits(i, uq) # {} /\ QS(f) # ResetQubits(i, uq)}
      [] OTHER -> {}

\* the verdict predicate of C26 on a reported result (also used by the trace specification)
RuleOk(i, F, uq, used, blocked) ==
    /\ used = UsedBy(i, F, uq) /\ blocked = BlockedBy(i, F, uq)
    /\ used \cup blocked \subseteq F /\ used \cap blocked = {}

\* Agreement of mechanism and rules, and the two set laws
AgreesOn(i, F, uq) ==
    LET m == Filter(Conds(i, uq), F) IN RuleOk(i, F, uq, m.used, m.blocked)
=============================================================================
