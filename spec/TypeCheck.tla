------------------------------ MODULE TypeCheck ------------------------------
(***************************************************************************)
(* quil-rs type checking: program::type_check::type_check                  *)
(*   (quil-rs/src/program/type_check.rs)                                   *)
(*                                                                         *)
(* Transcription.  `type_check` is a loop over the body that returns the   *)
(* first error: one `Step` action per iteration; `verdict` is None while   *)
(* no instruction failed and Some(position) afterwards.  Each iteration    *)
(* looks at one instruction and the program's declarations only:           *)
(*   InstrOk(decls, i)  the per-instruction rule, one CASE arm per arm of  *)
(*                      the `match` (SET-*/SHIFT-* -> should_be_real,      *)
(*                      Arithmetic, Comparison, BinaryLogic, UnaryLogic,   *)
(*                      Move, Exchange, Load, Store; everything else Ok)   *)
(*   RealValued(d, e)   `should_be_real`, as the property states it:       *)
(*                      declared REAL memory, real numbers, pi, closed     *)
(*                      under prefix/infix operators and function calls,   *)
(*                      no variables, at any depth.                        *)
(*                                                                         *)
(* Only RealValued and the loop shape are part of the property (C30); the  *)
(* remaining rule arms are a transcription of the code as built and are    *)
(* compared with it as MODEL-DIVERGENCE only.                              *)
(*                                                                         *)
(* Abstract syntax (DESIGN.md Appendix B): memory reference [name, index]; *)
(* operand [t |-> "int" | "real", v] or [t |-> "mref", m]; expression      *)
(* [t |-> "num", re, im] | [t |-> "pi"] | [t |-> "var", v] |               *)
(* [t |-> "addr", m] | [t |-> "neg" | "pos", e] | [t |-> "inf", op, l, r]  *)
(* | [t |-> "fn", f, e]; declarations: a function  name -> scalar type.    *)
(***************************************************************************)
EXTENDS Abs, TLC

MRef(name)   == [name |-> name, index |-> 0]
OInt         == [t |-> "int", v |-> "1"]
OReal        == [t |-> "real", v |-> "2.5"]
OMem(name)   == [t |-> "mref", m |-> MRef(name)]

ENum(re, im)   == [t |-> "num", re |-> re, im |-> im]
EPi            == [t |-> "pi"]
EVar(v)        == [t |-> "var", v |-> v]
EAddr(name)    == [t |-> "addr", m |-> MRef(name)]
ENeg(e)        == [t |-> "neg", e |-> e]
EFn(f, e)      == [t |-> "fn", f |-> f, e |-> e]
EInf(op, l, r) == [t |-> "inf", op |-> op, l |-> l, r |-> r]

SetShift(e)          == [k |-> "SetShift", e |-> e]        \* SET-FREQUENCY/PHASE/SCALE, SHIFT-FREQUENCY/PHASE
Arith(dst, src)      == [k |-> "Arith", dst |-> MRef(dst), src |-> src]
Move(dst, src)       == [k |-> "Move", dst |-> MRef(dst), src |-> src]
Logic(dst, src)      == [k |-> "Logic", dst |-> MRef(dst), src |-> src]      \* src: OInt or OMem
Unary(op, x)         == [k |-> "Unary", op |-> op, operand |-> MRef(x)]      \* op: "NOT" | "NEG"
Compare(dst, l, rhs) == [k |-> "Compare", dst |-> MRef(dst), lhs |-> MRef(l), rhs |-> rhs]
Exchange(l, r)       == [k |-> "Exchange", left |-> MRef(l), right |-> MRef(r)]
Load(dst, src, off)  == [k |-> "Load", dst |-> MRef(dst), source |-> src, offset |-> MRef(off)]
Store(dst, off, src) == [k |-> "Store", destination |-> dst, offset |-> MRef(off), src |-> src]
Convert(dst, src)    == [k |-> "Convert", dst |-> MRef(dst), src |-> MRef(src)]
Other(text)          == [k |-> "Other", text |-> text]                       \* gates, NOP, ...: not checked

\* type of a region name: "REAL" | "INTEGER" | "BIT" | "OCTET" | "none" (undeclared)
Ty(d, name) == IF name \in DOMAIN d THEN d[name] ELSE "none"

----------------------------------------------------------------------------
\* should_be_real  (the rule spelled out in the property)
RECURSIVE RealValued(_, _)
RealValued(d, e) ==
  CASE e.t = "addr" -> Ty(d, e.m.name) = "REAL"
    [] e.t = "num"  -> e.im = "0"
    [] e.t = "pi"   -> TRUE
    [] e.t = "var"  -> FALSE
    [] e.t \in {"neg", "pos", "fn"} -> RealValued(d, e.e)
    [] e.t = "inf"  -> RealValued(d, e.l) /\ RealValued(d, e.r)

\* the other arms, as built
ArithOk(d, i) ==
  LET dt == Ty(d, i.dst.name) IN
  CASE dt = "none" -> FALSE
    [] i.src.t = "int"  -> dt = "INTEGER"
    [] i.src.t = "real" -> dt = "REAL"
    [] i.src.t = "mref" -> dt \in {"INTEGER", "REAL"} /\ Ty(d, i.src.m.name) = dt
MoveOk(d, i) ==
  LET dt == Ty(d, i.dst.name) IN
  CASE dt = "none" -> FALSE
    [] i.src.t = "int"  -> dt # "REAL"
    [] i.src.t = "real" -> dt = "REAL"
    [] i.src.t = "mref" -> Ty(d, i.src.m.name) = dt
Integral(d, name) == Ty(d, name) \in {"BIT", "INTEGER", "OCTET"}
LogicOk(d, i) == Integral(d, i.dst.name) /\ (i.src.t = "int" \/ (i.src.t = "mref" /\ Integral(d, i.src.m.name)))
UnaryOk(d, i) == LET t == Ty(d, i.operand.name) IN
                 IF i.op = "NOT" THEN t \in {"BIT", "INTEGER", "OCTET"} ELSE t \in {"INTEGER", "REAL"}
CompareOk(d, i) ==
  LET lt == Ty(d, i.lhs.name) IN
  /\ Ty(d, i.dst.name) = "BIT" /\ lt # "none"
  /\ CASE i.rhs.t = "int"  -> lt # "REAL"
       [] i.rhs.t = "real" -> lt = "REAL"
       [] i.rhs.t = "mref" -> Ty(d, i.rhs.m.name) = lt
ExchangeOk(d, i) == Ty(d, i.left.name) # "none" /\ Ty(d, i.left.name) = Ty(d, i.right.name)
LoadOk(d, i) == /\ Ty(d, i.dst.name) # "none" /\ Ty(d, i.source) = Ty(d, i.dst.name)
                /\ Ty(d, i.offset.name) = "INTEGER"
StoreOk(d, i) ==
  LET dt == Ty(d, i.destination) IN
  /\ dt # "none" /\ Ty(d, i.offset.name) = "INTEGER"
  /\ CASE i.src.t = "int"  -> dt \in {"OCTET", "INTEGER", "BIT"}
       [] i.src.t = "real" -> dt = "REAL"
       [] i.src.t = "mref" -> Ty(d, i.src.m.name) = dt

InstrOk(d, i) ==
  CASE i.k = "SetShift" -> RealValued(d, i.e)
    [] i.k = "Arith"    -> ArithOk(d, i)
    [] i.k = "Move"     -> MoveOk(d, i)
    [] i.k = "Logic"    -> LogicOk(d, i)
    [] i.k = "Unary"    -> UnaryOk(d, i)
    [] i.k = "Compare"  -> CompareOk(d, i)
    [] i.k = "Exchange" -> ExchangeOk(d, i)
    [] i.k = "Load"     -> LoadOk(d, i)
    [] i.k = "Store"    -> StoreOk(d, i)
    [] OTHER            -> TRUE

\* "a program type-checks iff each of its body instructions type-checks against the declarations on its own"
ProgramOk(d, b) == \A m \in DOMAIN b : InstrOk(d, b[m])

----------------------------------------------------------------------------
\* transformations under which the verdict must not change
SwapAt(b, i, j) == [m \in DOMAIN b |-> IF m = i THEN b[j] ELSE IF m = j THEN b[i] ELSE b[m]]
DupAt(b, i)     == SubSeq(b, 1, i) \o <<b[i]>> \o SubSeq(b, i + 1, Len(b))
\* consistent renaming: s is a function on names (identity outside its DOMAIN), injective on everything used
Ren(s, name) == IF name \in DOMAIN s THEN s[name] ELSE name
RenRef(s, m) == [m EXCEPT !.name = Ren(s, @)]
RenOp(s, o)  == IF o.t = "mref" THEN [o EXCEPT !.m = RenRef(s, @)] ELSE o
RECURSIVE RenExpr(_, _)
RenExpr(s, e) ==
  CASE e.t = "addr" -> [e EXCEPT !.m = RenRef(s, @)]
    [] e.t \in {"neg", "pos", "fn"} -> [e EXCEPT !.e = RenExpr(s, @)]
    [] e.t = "inf" -> [e EXCEPT !.l = RenExpr(s, @), !.r = RenExpr(s, @)]
    [] OTHER -> e
RenInstr(s, i) ==
  CASE i.k = "SetShift" -> [i EXCEPT !.e = RenExpr(s, @)]
    [] i.k \in {"Arith", "Move", "Logic"} -> [i EXCEPT !.dst = RenRef(s, @), !.src = RenOp(s, @)]
    [] i.k = "Unary"    -> [i EXCEPT !.operand = RenRef(s, @)]
    [] i.k = "Compare"  -> [i EXCEPT !.dst = RenRef(s, @), !.lhs = RenRef(s, @), !.rhs = RenOp(s, @)]
    [] i.k = "Exchange" -> [i EXCEPT !.left = RenRef(s, @), !.right = RenRef(s, @)]
    [] i.k = "Load"     -> [i EXCEPT !.dst = RenRef(s, @), !.source = Ren(s, @), !.offset = RenRef(s, @)]
    [] i.k = "Store"    -> [i EXCEPT !.destination = Ren(s, @), !.offset = RenRef(s, @), !.src = RenOp(s, @)]
    [] i.k = "Convert"  -> [i EXCEPT !.dst = RenRef(s, @), !.src = RenRef(s, @)]
    [] OTHER -> i
RenBody(s, b)  == [m \in DOMAIN b |-> RenInstr(s, b[m])]
RenDecls(s, d) == [x \in {Ren(s, y) : y \in DOMAIN d} |-> d[CHOOSE y \in DOMAIN d : Ren(s, y) = x]]

----------------------------------------------------------------------------
VARIABLES decls,    \* declarations: function name -> type                        (input)
          body,     \* the program body                                           (input)
          base,     \* [decls, body, via]: the program this one was derived from  (input; see MC module)
          pc,       \* loop position
          verdict,  \* None | Some(position of the first ill-typed instruction)
          phase     \* "gen" | "run" | "done"
vars == <<decls, body, base, pc, verdict, phase>>

Step ==
  /\ phase = "run" /\ pc <= Len(body)
  /\ IF InstrOk(decls, body[pc])
     THEN pc' = pc + 1 /\ UNCHANGED <<verdict, phase>>
     ELSE verdict' = Some(pc) /\ phase' = "done" /\ UNCHANGED pc      \* `?` returns the first error
  /\ UNCHANGED <<decls, body, base>>
Finish ==
  /\ phase = "run" /\ pc = Len(body) + 1 /\ phase' = "done"
  /\ UNCHANGED <<decls, body, base, pc, verdict>>

\* invariants -----------------------------------------------------------------
\* C30, first sentence: the loop's verdict is the conjunction of the per-instruction verdicts
Decomposes == phase = "done" => (IsNone(verdict) <=> ProgramOk(decls, body))
\* the loop reports the *first* failing instruction and has accepted everything before it
FirstError == /\ \A m \in 1..(pc - 1) : InstrOk(decls, body[m])
              /\ IsSome(verdict) => (verdict.some = pc /\ ~InstrOk(decls, body[pc]))
\* C30, last sentence: the verdict of a derived program is the verdict of the program it came from
SameAsBase == phase = "done" => (IsNone(verdict) <=> ProgramOk(base.decls, base.body))
=============================================================================
