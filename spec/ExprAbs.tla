------------------------------- MODULE ExprAbs -------------------------------
(***************************************************************************)
(* The expression part of the shared abstract syntax (DESIGN.md §4.1,      *)
(* Appendix B) and the arithmetic the three expression modules share:      *)
(*   ExprSyntax   (printer + Pratt parser, C03)                            *)
(*   ExprSimplify (rewrite rules of simplification/by_hand.rs, C12)        *)
(*   ExprEval     (evaluate / substitute_variables / memory_references,    *)
(*                 C13)                                                    *)
(*                                                                         *)
(* quil_rs::expression::Expression as tagged records:                      *)
(*   [t |-> "num", re |-> "0.5", im |-> "0"]   a literal, components as    *)
(*                                             decimal strings (`Lit`)     *)
(*   [t |-> "num", n |-> k]                    a number known only by its  *)
(*                                             image k in GF(P) (results   *)
(*                                             of constant folding)        *)
(*   [t |-> "pi"]  [t |-> "var", v |-> "x"]                                *)
(*   [t |-> "addr", m |-> [name |-> "m", index |-> 0]]                     *)
(*   [t |-> "neg", e |-> E]  [t |-> "pos", e |-> E]                        *)
(*   [t |-> "inf", op |-> "+", l |-> E, r |-> E]                           *)
(*   [t |-> "fn", f |-> "sin", e |-> E]                                    *)
(*                                                                         *)
(* TLC has 32-bit integers and no reals, so values live in the prime field *)
(* GF(1009): + - * / and negation are exact field operations (which is     *)
(* where every structural rule of the printer, parser and simplifier       *)
(* lives), `i` is a true square root of -1, `^` is interpreted for integer *)
(* exponents of small magnitude and is otherwise a fixed uninterpreted     *)
(* binary map, the five functions are fixed uninterpreted unary maps.      *)
(* Floating-point evaluation of the same cases is done by the harness      *)
(* (DESIGN.md §8).                                                         *)
(***************************************************************************)
EXTENDS Abs, TLC

Num(re, im)  == [t |-> "num", re |-> re, im |-> im]
GNum(k)      == [t |-> "num", n |-> k]
PiC          == [t |-> "pi"]
Var(v)       == [t |-> "var", v |-> v]
Addr(nm, ix) == [t |-> "addr", m |-> [name |-> nm, index |-> ix]]
Neg(e)       == [t |-> "neg", e |-> e]
Pos(e)       == [t |-> "pos", e |-> e]
Inf(l, o, r) == [t |-> "inf", op |-> o, l |-> l, r |-> r]
Fn(f, e)     == [t |-> "fn", f |-> f, e |-> e]

InfixOps  == {"+", "-", "*", "/", "^"}
Functions == {"cis", "cos", "exp", "sin", "sqrt"}

IsLeaf(e) == e.t \in {"num", "pi", "var", "addr"}
IsNum(e)  == e.t = "num"
IsNeg(e)  == e.t = "neg"
IsInf(e, o) == e.t = "inf" /\ e.op = o

----------------------------------------------------------------------------
\* GF(P)

P   == 1009
NaN == P                      \* division by zero; absorbing
Incomplete == P + 1           \* evaluate(): EvaluationError::Incomplete
ImagUnit == 469               \* 469 * 469 = -1 (mod 1009)
PiVal == 432                  \* a generic element standing for pi

RECURSIVE PowMod(_, _)
PowMod(b, n) == IF n = 0 THEN 1
                ELSE LET h == PowMod(b, n \div 2) IN
                     IF n % 2 = 0 THEN (h * h) % P ELSE (((h * h) % P) * b) % P
Inv(a) == PowMod(a, P - 2)

\* uninterpreted maps
FnVal(f, a) == CASE f = "sin"  -> (a * 17 + 5) % P
                 [] f = "cos"  -> (a * 29 + 11) % P
                 [] f = "exp"  -> (a * 41 + 23) % P
                 [] f = "cis"  -> (a * 53 + 31) % P
                 [] f = "sqrt" -> (a * 61 + 47) % P
U2(a, b) == (a * a * 31 + b * 7 + a * b + 3) % P

\* `^`: integer exponents -40..40 are the true powers and the exponent 1/2 of a small perfect square is its
\* root (so that folding 2^3 to 8, 4^(1/2) to 2, x^1 to x, x^0 to 1 agrees with floating point wherever
\* floating point is exact); everything else is a fixed generic map.  Any fixed function of (a, b) with
\* a^0 = 1, a^1 = a, 1^b = 1, 0^b = 0 (b # 0) would do for soundness: the simplifier uses no other power law.
SmallExp == 40
Half == Inv(2)
IsSmallSquare(a) == \E k \in 0..31 : k * k = a
RootOf(a) == CHOOSE k \in 0..31 : k * k = a
Pow(a, b) == IF b <= SmallExp THEN PowMod(a, b)
             ELSE IF b >= P - SmallExp THEN (IF a = 0 THEN NaN ELSE PowMod(Inv(a), P - b))
             ELSE IF b = Half /\ IsSmallSquare(a) THEN RootOf(a)
             ELSE IF a = 1 THEN 1
             ELSE IF a = 0 THEN 0
             ELSE U2(a, b)

Calc(a, o, b) ==
  IF a = NaN \/ b = NaN THEN NaN
  ELSE CASE o = "+" -> (a + b) % P
         [] o = "-" -> (a + P - b) % P
         [] o = "*" -> (a * b) % P
         [] o = "/" -> (IF b = 0 THEN NaN ELSE (a * Inv(b)) % P)
         [] o = "^" -> Pow(a, b)
NegV(a) == IF a = NaN THEN NaN ELSE (P - a) % P
FnV(f, a) == IF a = NaN THEN NaN ELSE FnVal(f, a)

----------------------------------------------------------------------------
\* Literals.  A component is a decimal string as the harness writes it (Rust `{}` of the f64, "0" for
\* both zeros); the table gives its sign, the spelling of its magnitude as `format_complex` prints a
\* real part (`rt`, trim_floats = true) and an imaginary part (`it`, trim_floats = false), the lexer's
\* token class of `rt`, and its image in GF(P).

L(neg, rt, it, cls, v) == [neg |-> neg, rt |-> rt, it |-> it, cls |-> cls, v |-> v]
Lit ==
     "0"    :> L(FALSE, "0", "0.0", "int", 0)
  @@ "1"    :> L(FALSE, "1", "1.0", "int", 1)
  @@ "2"    :> L(FALSE, "2", "2.0", "int", 2)
  @@ "3"    :> L(FALSE, "3", "3.0", "int", 3)
  @@ "-1"   :> L(TRUE,  "1", "1.0", "int", P - 1)
  @@ "-2"   :> L(TRUE,  "2", "2.0", "int", P - 2)
  @@ "0.5"  :> L(FALSE, "0.5", "0.5", "float", Inv(2))
  @@ "-0.5" :> L(TRUE,  "0.5", "0.5", "float", P - Inv(2))
  @@ "1.5"  :> L(FALSE, "1.5", "1.5", "float", (3 * Inv(2)) % P)
  @@ "-1.5" :> L(TRUE,  "1.5", "1.5", "float", P - ((3 * Inv(2)) % P))
  @@ "0.0000001" :> L(FALSE, "1e-7", "1.0e-7", "float", Inv(PowMod(10, 7)))
  @@ "100000000000000000000" :> L(FALSE, "1e20", "1.0e20", "float", PowMod(10, 20))

IsZeroC(s) == s = "0"
NumVal(e) == IF "n" \in DOMAIN e THEN e.n ELSE (Lit[e.re].v + ImagUnit * Lit[e.im].v) % P

----------------------------------------------------------------------------
\* Evaluation (Expression::evaluate).  `vars`: function name -> value, `mem`: function region -> sequence
\* of values (0-based index i is element i + 1).  Missing variable / region / index: Incomplete, and the
\* `?` of the code propagates it left to right.

RECURSIVE Eval(_, _, _)
Eval(e, vars, mem) ==
  CASE e.t = "num"  -> NumVal(e)
    [] e.t = "pi"   -> PiVal
    [] e.t = "var"  -> (IF e.v \in DOMAIN vars THEN vars[e.v] ELSE Incomplete)
    [] e.t = "addr" -> (IF e.m.name \in DOMAIN mem /\ e.m.index < Len(mem[e.m.name])
                        THEN mem[e.m.name][e.m.index + 1] ELSE Incomplete)
    [] e.t = "neg"  -> (LET a == Eval(e.e, vars, mem) IN IF a = Incomplete THEN Incomplete ELSE NegV(a))
    [] e.t = "pos"  -> Eval(e.e, vars, mem)
    [] e.t = "fn"   -> (LET a == Eval(e.e, vars, mem) IN IF a = Incomplete THEN Incomplete ELSE FnV(e.f, a))
    [] e.t = "inf"  -> (LET a == Eval(e.l, vars, mem) IN
                        IF a = Incomplete THEN Incomplete
                        ELSE LET b == Eval(e.r, vars, mem) IN
                             IF b = Incomplete THEN Incomplete ELSE Calc(a, e.op, b))

\* free names
RECURSIVE VarsOf(_), AddrsOf(_), HasPi(_), Size(_), Depth(_)
VarsOf(e)  == CASE e.t = "var" -> {e.v}
                [] e.t \in {"num", "pi", "addr"} -> {}
                [] e.t \in {"neg", "pos", "fn"} -> VarsOf(e.e)
                [] e.t = "inf" -> VarsOf(e.l) \cup VarsOf(e.r)
AddrsOf(e) == CASE e.t = "addr" -> {e.m}
                [] e.t \in {"num", "pi", "var"} -> {}
                [] e.t \in {"neg", "pos", "fn"} -> AddrsOf(e.e)
                [] e.t = "inf" -> AddrsOf(e.l) \cup AddrsOf(e.r)
HasPi(e)   == CASE e.t = "pi" -> TRUE
                [] e.t \in {"num", "var", "addr"} -> FALSE
                [] e.t \in {"neg", "pos", "fn"} -> HasPi(e.e)
                [] e.t = "inf" -> HasPi(e.l) \/ HasPi(e.r)
Size(e)    == CASE IsLeaf(e) -> 1
                [] e.t \in {"neg", "pos", "fn"} -> 1 + Size(e.e)
                [] e.t = "inf" -> 1 + Size(e.l) + Size(e.r)
Depth(e)   == CASE IsLeaf(e) -> 0
                [] e.t \in {"neg", "pos", "fn"} -> 1 + Depth(e.e)
                [] e.t = "inf" -> 1 + (IF Depth(e.l) >= Depth(e.r) THEN Depth(e.l) ELSE Depth(e.r))

\* one layer of constructors over a set of trees (used by the bounded generators)
Wrap(S, ops, fns, prefixes) ==
       { Inf(a, o, b) : a \in S, o \in ops, b \in S }
  \cup { Fn(f, a) : f \in fns, a \in S }
  \cup { [t |-> p, e |-> a] : p \in prefixes, a \in S }
=============================================================================
