CONSTANT N = 6
INIT Init
NEXT Next
