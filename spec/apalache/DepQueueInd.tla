---------------------------- MODULE DepQueueInd ----------------------------
EXTENDS Integers, FiniteSets
CONSTANT
  \* @type: Int;
  N
VARIABLES
  \* @type: Int;
  n,
  \* @type: Int -> Bool;
  isWrite,
  \* @type: Int -> Int;
  gw,
  \* @type: Int;
  w,
  \* @type: Set(Int);
  R,
  \* @type: Set(<<Int, Int>>);
  E

Nodes == 1..N
Done(k) == k \in Nodes /\ k <= n

Init == /\ n = 0 /\ isWrite = [k \in Nodes |-> FALSE] /\ gw = [k \in Nodes |-> 0]
        /\ w = 0 /\ R = {} /\ E = {}

\* DependencyQueue::record_access_and_get_dependencies for node n+1
Record(isW) ==
  LET me == n + 1
      deps == (IF w = 0 THEN {} ELSE {w}) \union (IF isW THEN R ELSE {})
  IN /\ n < N /\ n' = me
     /\ E' = E \union { <<d, me>> : d \in deps }
     /\ w' = IF isW THEN me ELSE w
     /\ R' = IF isW THEN {} ELSE R \union {me}
     /\ isWrite' = [isWrite EXCEPT ![me] = isW]
     /\ gw' = [gw EXCEPT ![me] = w]
Next == (\E b \in BOOLEAN : Record(b)) \/ (n = N /\ UNCHANGED <<n, isWrite, gw, w, R, E>>)

\* ---- inductive invariant: characterises the queue cell and the direct edges ----
TypeOK == /\ n \in 0..N /\ w \in 0..N /\ R \in SUBSET Nodes /\ E \in SUBSET (Nodes \X Nodes)
          /\ isWrite \in [Nodes -> BOOLEAN] /\ gw \in [Nodes -> 0..N]
LastWriterBefore(k, g) == /\ g < k /\ (g # 0 => (g \in Nodes /\ isWrite[g]))
                          /\ \A m \in Nodes : (g < m /\ m < k) => ~isWrite[m]
IndInv ==
  /\ TypeOK
  /\ \A k \in Nodes : Done(k) => LastWriterBefore(k, gw[k])
  /\ w <= n /\ LastWriterBefore(n + 1, w)
  /\ R = { k \in Nodes : Done(k) /\ ~isWrite[k] /\ gw[k] = w }
  /\ E = { p \in Nodes \X Nodes :
             /\ Done(p[2]) /\ p[1] < p[2]
             /\ \/ p[1] = gw[p[2]]
                \/ (isWrite[p[2]] /\ ~isWrite[p[1]] /\ gw[p[1]] = gw[p[2]]) }
IndInit == IndInv
Sanity == ~(n = 4 /\ w = 2 /\ R = {3, 4} /\ <<1, 2>> \in E)

\* ---- consequence (checked by TLC boundedly / argued on paper): conflicting pairs are ordered ----
=============================================================================
