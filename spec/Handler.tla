------------------------------- MODULE Handler -------------------------------
(***************************************************************************)
(* What ScheduledBasicBlock::build learns about an instruction through the *)
(* four InstructionHandler calls of the DefaultHandler, *according to the  *)
(* specification*: role and is_scheduled (the two kind tables of           *)
(* instruction/mod.rs), the regions read / written / captured as property  *)
(* C27 demands them (MemAccess!Demanded: derived from the operational      *)
(* semantics for classical instructions, the rule for the others), and the *)
(* frames used / blocked as property C26 states them (FrameMatch!UsedBy /  *)
(* BlockedBy).                                                             *)
(*                                                                         *)
(* These summaries - not the ones the handler under test reports - define  *)
(* which instructions "touch the same region" / "use or block the same     *)
(* frame" when C22-C24 are judged: a handler that forgets an access must   *)
(* show up as an unordered conflicting pair, not redefine the conflict     *)
(* away.                                                                   *)
(***************************************************************************)
EXTENDS MemAccess, FrameMatch

RoleOf(i) ==
    CASE i.k \in {"Reset", "Capture", "Delay", "Fence", "Pulse", "RawCapture", "SetFrequency", "SetPhase",
                  "SetScale", "ShiftFrequency", "ShiftPhase", "SwapPhases"} -> "RF"
      [] i.k \in {"Arith", "Call", "Compare", "Convert", "Logic", "Unary", "Move", "Exchange", "Load", "Nop",
                  "Pragma", "Store"} -> "C"
      [] i.k \in {"Halt", "Jump", "JumpWhen", "JumpUnless", "Wait"} -> "CF"
      [] OTHER -> "PC"
IsScheduled(i) == IF i.k = "Reset" THEN FALSE ELSE IF i.k = "Wait" THEN TRUE ELSE RoleOf(i) = "RF"

\* Instruction::get_qubits, as far as the alphabets go (feeds the program's used-qubit set for a bare RESET)
QubitsOf(i) == CASE i.k \in {"Pulse", "Capture", "RawCapture"} -> Range(i.frame.qubits)
                 [] i.k \in {"Delay", "Fence", "Gate"} -> Range(i.qubits)
                 [] i.k = "Reset" -> IF IsSome(i.qubit) THEN {i.qubit.some} ELSE {}
                 [] OTHER -> {}
UsedQubits(is) == UNION {QubitsOf(is[n]) : n \in DOMAIN is}

\* the regions an instruction touches, as the property demands (no extern calls inside blocks: sigs = <<>>);
\* for instructions that combine a cell with itself the table stands in for the derivation (MemAccess!SelfCombining)
SpecAccess(i) == IF i.k \in ClassicalKinds /\ SelfCombining(i) THEN Reported(i, <<>>) ELSE Demanded(i, <<>>)

SummaryFrom(i, acc, F, uq) ==
    LET fs == HasFrameSemantics(i) IN
    [role |-> RoleOf(i), timed |-> IsScheduled(i), r |-> acc.reads, w |-> acc.writes, c |-> acc.captures,
     use |-> IF fs THEN UsedBy(i, F, uq) ELSE {}, blk |-> IF fs THEN BlockedBy(i, F, uq) ELSE {}]
Summary(i, F, uq) == SummaryFrom(i, SpecAccess(i), F, uq)
=============================================================================
