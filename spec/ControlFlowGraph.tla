-------------------------- MODULE ControlFlowGraph --------------------------
(***************************************************************************)
(* The basic-block builder of quil-rs:                                     *)
(*   impl From<&Program> for ControlFlowGraph                              *)
(*   (quil-rs/src/program/analysis/control_flow_graph.rs)                  *)
(*                                                                         *)
(* One `Step` action is one iteration of the builder's loop over the       *)
(* program body, `Flush` is the code after the loop.  The variables are    *)
(* the loop's locals: the open label, the open instruction list, the       *)
(* running instruction_index_offset and the blocks pushed so far.          *)
(*                                                                         *)
(* Instructions are abstract: the builder only looks at the *class* of an  *)
(* instruction (ordinary / LABEL / one of the four terminators / INCLUDE   *)
(* and the definition kinds, which are skipped), so an instruction is a    *)
(* record [k, text, ...] where `text` is the Quil text of the real         *)
(* instruction (opaque to the model, used for identity) and `k` its class. *)
(***************************************************************************)
EXTENDS Abs, TLC

Plain(text)        == [k |-> "Plain", text |-> text]
Label(l)           == [k |-> "Label", text |-> "LABEL @" \o l, target |-> l]
Jump(l)            == [k |-> "Jump", text |-> "JUMP @" \o l, target |-> l]
JumpWhen(l, c)     == [k |-> "JumpWhen", text |-> "JUMP-WHEN @" \o l \o " " \o c, target |-> l, cond |-> c]
JumpUnless(l, c)   == [k |-> "JumpUnless", text |-> "JUMP-UNLESS @" \o l \o " " \o c, target |-> l, cond |-> c]
Halt               == [k |-> "Halt", text |-> "HALT"]
Skipped(text)      == [k |-> "Skipped", text |-> text]     \* INCLUDE: in the body, ignored by the builder

IsTerm(i) == i.k \in {"Jump", "JumpWhen", "JumpUnless", "Halt"}

\* terminators as the code's BasicBlockTerminator
Continue == [t |-> "Continue"]
TermOf(i) == CASE i.k = "Jump"       -> [t |-> "Jump", target |-> i.target]
               [] i.k = "JumpWhen"   -> [t |-> "Cond", target |-> i.target, cond |-> i.cond, ifzero |-> FALSE]
               [] i.k = "JumpUnless" -> [t |-> "Cond", target |-> i.target, cond |-> i.cond, ifzero |-> TRUE]
               [] i.k = "Halt"       -> [t |-> "Halt"]

Block(l, is, off, t) == [label |-> l, instrs |-> is, offset |-> off, term |-> t]

VARIABLES body,        \* the program body (input)
          pc,          \* 1-based position of the loop
          openLabel,   \* current_label : Opt(label name)
          openInstrs,  \* current_block_instructions (sequence of instruction texts)
          offset,      \* instruction_index_offset
          blocks,      \* graph.blocks
          phase        \* "gen" (input is being generated) | "run" | "done"
vars == <<body, pc, openLabel, openInstrs, offset, blocks, phase>>

\* Deviation switch: the builder as it was before the repair of the LABEL arm
\* ("+1 for the label" was added even when the closed block had no label).
CONSTANT LabelArmAlwaysAddsOne

RunInit(b) == /\ body = b /\ pc = 1 /\ openLabel = None /\ openInstrs = <<>>
              /\ offset = 0 /\ blocks = <<>>

Step ==
  /\ phase = "run" /\ pc <= Len(body)
  /\ LET i == body[pc] IN
     CASE i.k = "Label" ->
            IF openInstrs # <<>> \/ IsSome(openLabel)
            THEN /\ blocks' = Append(blocks, Block(openLabel, openInstrs, offset, Continue))
                 /\ offset' = offset + Len(openInstrs)
                                + (IF LabelArmAlwaysAddsOne \/ IsSome(openLabel) THEN 1 ELSE 0)
                 /\ openInstrs' = <<>> /\ openLabel' = Some(i.target)
            ELSE /\ openLabel' = Some(i.target) /\ UNCHANGED <<blocks, offset, openInstrs>>
       [] IsTerm(i) ->
            /\ blocks' = Append(blocks, Block(openLabel, openInstrs, offset, TermOf(i)))
            /\ offset' = offset + Len(openInstrs) + 1 + (IF IsSome(openLabel) THEN 1 ELSE 0)
            /\ openInstrs' = <<>> /\ openLabel' = None
       [] i.k = "Skipped" -> UNCHANGED <<blocks, offset, openInstrs, openLabel>>
       [] OTHER -> /\ openInstrs' = Append(openInstrs, i.text)
                   /\ UNCHANGED <<blocks, offset, openLabel>>
  /\ pc' = pc + 1 /\ UNCHANGED <<body, phase>>

Flush ==
  /\ phase = "run" /\ pc = Len(body) + 1
  /\ blocks' = IF openInstrs # <<>> \/ IsSome(openLabel)
               THEN Append(blocks, Block(openLabel, openInstrs, offset, Continue)) ELSE blocks
  /\ phase' = "done" /\ UNCHANGED <<body, pc, openLabel, openInstrs, offset>>

----------------------------------------------------------------------------
\* The property (C28), stated on (body, blocks) without reference to the loop.

TermText(b) == CASE b.term.t = "Continue" -> <<>>
                 [] b.term.t = "Jump" -> <<"JUMP @" \o b.term.target>>
                 [] b.term.t = "Halt" -> <<"HALT">>
                 [] b.term.t = "Cond" -> <<(IF b.term.ifzero THEN "JUMP-UNLESS @" ELSE "JUMP-WHEN @")
                                            \o b.term.target \o " " \o b.term.cond>>
Flat(b) == (IF IsSome(b.label) THEN <<"LABEL @" \o b.label.some>> ELSE <<>>) \o b.instrs \o TermText(b)

RECURSIVE Reassemble(_)
Reassemble(bs) == IF bs = <<>> THEN <<>> ELSE Flat(Head(bs)) \o Reassemble(Tail(bs))

NotSkipped(i) == i.k # "Skipped"
Texts(is) == [n \in DOMAIN is |-> is[n].text]
Stripped(b) == Texts(SelectSeq(b, NotSkipped))

RECURSIVE Offs(_, _)
Offs(bs, acc) == IF bs = <<>> THEN <<>> ELSE <<acc>> \o Offs(Tail(bs), acc + Len(Flat(Head(bs))))

\* "blocks in order, each written as label, instructions, terminator, reproduce the body, INCLUDE excepted"
PartitionOf(b, bs)   == Reassemble(bs) = Stripped(b)
\* "each block's offset is the body position of its first element"
OffsetExactOf(b, bs) == [n \in DOMAIN bs |-> bs[n].offset] = Offs(bs, 0)
\* no block is empty (every block has a label, an instruction or a terminator)
NonEmptyOf(bs)       == \A n \in DOMAIN bs : Flat(bs[n]) # <<>>
\* every block except possibly the last ends at a terminator or right before a label
BoundariesOf(bs)     == \A n \in DOMAIN bs : n < Len(bs) =>
                           (bs[n].term.t # "Continue" \/ IsSome(bs[n + 1].label))
\* only the block-opening position can be a label; no terminator inside a block
DynamicOf(b)         == \E n \in DOMAIN b : b[n].k \in {"JumpWhen", "JumpUnless"}
HasDynamic(bs)       == \E n \in DOMAIN bs : bs[n].term.t = "Cond"

Partition   == phase = "done" => PartitionOf(body, blocks)
OffsetExact == phase = "done" => OffsetExactOf(body, blocks)
NonEmpty    == phase = "done" => NonEmptyOf(blocks)
Boundaries  == phase = "done" => BoundariesOf(blocks)
Dynamic     == phase = "done" => (HasDynamic(blocks) <=> DynamicOf(body))

\* loop invariant: what has been consumed so far is exactly what is in blocks + the open block
Consumed == phase = "run" =>
   /\ Reassemble(blocks) \o (IF IsSome(openLabel) THEN <<"LABEL @" \o openLabel.some>> ELSE <<>>) \o openInstrs
        = Stripped(SubSeq(body, 1, pc - 1))
   /\ offset = Len(Reassemble(blocks))
=============================================================================
