------------------------------ MODULE SourceMap ------------------------------
(***************************************************************************)
(* C19: what it means for the source map of a calibration expansion to     *)
(* "exactly account for every expansion", as a predicate WellFormed on     *)
(*      (calibrations, source body, expanded body, entries tree)           *)
(* stated without reference to how the map was built, plus the invariants  *)
(* that the CalExpand machine's own maps satisfy it.                       *)
(*                                                                         *)
(* The same predicate is evaluated by TLC on maps exported from the real   *)
(* Program::expand_calibrations_with_source_map (spec/trace/SourceMapTrace).*)
(***************************************************************************)
EXTENDS CalExpand

\* "an unmodified entry points to an identical instruction in the output"; for the nested entries of an
\* expansion record the source is the instantiated body of the calibration the record names, and the
\* output is the slice of the expanded body the record's range denotes.  Instructions hoisted out of the
\* body (DECLARE) have no entry.  `skip`: source indices of this level whose nested records are not judged.
RECURSIVE IdentityAt(_, _, _, _, _, _)
IdentityAt(g, mm, es, source, slice, skip) ==
  \A n \in 1..Len(es) :
    LET e == es[n] IN
    /\ e.s + 1 \in DOMAIN source
    /\ IF IsRew(e.t)
       THEN LET d == e.t.r IN
            /\ d.from <= d.to /\ d.to <= Len(slice)
            /\ e.s \notin skip =>
                 /\ d.cal = MatchIn(g, mm, source[e.s + 1])          \* the calibration that was used
                 /\ d.cal # NoCal
                 /\ IdentityAt(g, mm, d.exps, InstBody(g, mm, d.cal, source[e.s + 1]),
                               SubSeq(slice, d.from + 1, d.to), {})
       ELSE /\ e.t.u + 1 \in DOMAIN slice
            /\ slice[e.t.u + 1] = source[e.s + 1]

\* "querying sources of a target and targets of a source are inverse": every output position is covered
\* by exactly one entry, so list_sources is a function and list_targets its inverse image
InverseQueries(map, nout) ==
  \A t \in 0..(nout - 1) : Cardinality(Covering(map, t)) = 1

\* the answers of SourceMap::list_sources / list_targets, as the entries tree determines them
ListSources(map, t) == [n \in 1..Cardinality(Covering(map, t)) |->
                          map[CHOOSE x \in Covering(map, t) : Cardinality({y \in Covering(map, t) : y < x}) = n - 1].s]
ListTargets(map, s) == LET E == {n \in DOMAIN map : map[n].s = s} IN
                       [n \in 1..Cardinality(E) |->
                          LET x == CHOOSE x \in E : Cardinality({y \in E : y < x}) = n - 1 IN
                          <<SpanFrom(map[x].t), SpanTo(map[x].t)>>]

\* every instruction of the source body that is still in the output, or was expanded into something
\* that is, has its entry ("accounts for every expansion")
EverySourceAccounted(g, mm, source, map) ==
  \A s \in 0..(Len(source) - 1) :
     (\E n \in DOMAIN map : map[n].s = s) \/ MatchIn(g, mm, source[s + 1]) # NoCal

WellFormedExcept(g, mm, source, out, map, skip) ==
  /\ Tiles(map, 0, Len(out), skip)
  /\ IdentityAt(g, mm, map, source, out, skip)
  /\ InverseQueries(map, Len(out))
  /\ EverySourceAccounted(g, mm, source, map)
WellFormed(g, mm, source, out, map) == WellFormedExcept(g, mm, source, out, map, {})

----------------------------------------------------------------------------
\* the machine's own maps
MapWellFormed == (m.status = "done" /\ withMap) => WellFormed(gc, mc, src, m.out, m.map)
\* while a frame is open, its entries tile what it has produced so far (loop invariant of
\* recursively_expand_inner)
FrameEntriesTile ==
  withMap => \A n \in DOMAIN m.stack :
               Tiles(m.stack[n].entries, 0, Len(m.stack[n].new), {})
\* the program-level map tiles the body produced so far (loop invariant of expand_calibrations_inner)
MapTilesPrefix == (withMap /\ m.pc # "hoist") => TilesLevel(m.map, 0, Len(m.out)) /\ SourcesAscending(m.map)

\* source instructions of the body whose expansion output contained a hoisted instruction
RawOf(g, mm, i) == ExpInstr(g, mm, i, {}, MaxDepth)
HoistingSources(g, mm, source) ==
  {s \in 0..(Len(source) - 1) :
     LET r == RawOf(g, mm, source[s + 1]) IN IsOk(r) /\ \E n \in DOMAIN r.ok : Hoisted(r.ok[n])}
=============================================================================
