------------------------------ MODULE GateDepth ------------------------------
(***************************************************************************)
(* The qubit dependency graph of a basic block and its gate depth:         *)
(*   QubitGraph::new, QubitGraph::path_fold, QubitGraph::gate_depth        *)
(*   (quil-rs/src/program/analysis/qubit_graph.rs)                         *)
(*                                                                         *)
(* Transcription.  One `Step` action is one iteration of the loop of       *)
(* QubitGraph::new: the role check (PRAGMA, jumps and RF-control           *)
(* instructions make the constructor return Err), then one node per        *)
(* instruction and, for every qubit of the instruction in operand order,   *)
(* one edge from the previous instruction on that qubit                    *)
(* (`last_instruction_for_qubit.insert(qubit, node)`).  The edges are a    *)
(* sequence: the graph is a multigraph (two shared qubits = two edges).    *)
(* `path_fold` is the explicit-stack walk over all source-to-sink paths:   *)
(* `StartFold`, one `FoldPop` per `stack.pop()`, `FoldDone`.  The          *)
(* accumulator carries the count for every threshold 1..MaxK at once (the  *)
(* code runs one fold per threshold).  With StepwiseFold = FALSE the walk  *)
(* is replaced by the single action `FoldAll`, which evaluates the same    *)
(* walk as a recursive operator (PathMax).                                 *)
(*                                                                         *)
(* Oracle (C29), independent of edges, stack and paths:                    *)
(*   Adjacent(b, i, j): i < j, b[i] and b[j] share a qubit q and no        *)
(*                      instruction strictly between them acts on q;       *)
(*   a chain is a set of positions whose consecutive members are Adjacent; *)
(*   ChainDepth(b, k) = max over chains of the number of gates on >= k     *)
(*   qubits (literal reading of the statement, by enumeration of subsets); *)
(*   TableDepth(b, k) = the same by dynamic programming in program order   *)
(*   (usable on long recorded bodies).                                     *)
(*                                                                         *)
(* Excluded input: an instruction naming one qubit twice (not well-formed  *)
(* Quil; `insert` would return the node itself, the self-edge makes        *)
(* path_fold loop forever - noted in DESIGN.md section 7, not judged).     *)
(***************************************************************************)
EXTENDS Abs, TLC
CONSTANTS MaxK,          \* thresholds 1..MaxK
          StepwiseFold   \* TRUE: path_fold runs as the stack machine; FALSE: one FoldAll action

\* abstract instructions: class + qubit operands in operand order
Gate(qs)        == [k |-> "Gate", qs |-> qs]
Measure(q)      == [k |-> "Measure", qs |-> <<q>>]
Classical       == [k |-> "Classical", qs |-> <<>>]        \* MOVE, ADD, NOP, WAIT, ...: a node without edges
Unsupported(qs) == [k |-> "Unsupported", qs |-> qs]        \* PRAGMA, RESET, FENCE, DELAY, PULSE, SET-*, ...

QSet(i)      == Range(i.qs)
Counts(i, k) == i.k = "Gate" /\ Len(i.qs) >= k
WellFormedInstr(i) == Cardinality(QSet(i)) = Len(i.qs)

VARIABLES body,     \* the block's instructions (input)
          pc,       \* 1-based loop position = index of the node being added
          last,     \* last_instruction_for_qubit: function  qubit -> node index
          edges,    \* graph edges in insertion order: sequence of <<from, to>>
          failed,   \* the constructor returned Err(UnsupportedInstruction)
          stack,    \* path_fold's stack of [acc, nodes]
          best,     \* running maximum of the finished paths' accumulators, per threshold
          npaths,   \* number of finished paths (length of path_fold's result vector)
          phase     \* "gen" | "run" | "fold" | "done"
vars == <<body, pc, last, edges, failed, stack, best, npaths, phase>>

EmptyFn == [q \in {} |-> 0]
Zero    == [k \in 1..MaxK |-> 0]

RunInit(b) == /\ body = b /\ pc = 1 /\ last = EmptyFn /\ edges = <<>> /\ failed = FALSE
              /\ stack = <<>> /\ best = Zero /\ npaths = 0

----------------------------------------------------------------------------
\* QubitGraph::new, one loop iteration as a function of the loop's locals
StepFn(st, i, n) ==
  LET hits == SelectSeq(i.qs, LAMBDA q : q \in DOMAIN st.last)
  IN [last  |-> [q \in DOMAIN st.last \cup QSet(i) |-> IF q \in QSet(i) THEN n ELSE st.last[q]],
      edges |-> st.edges \o [m \in 1..Len(hits) |-> <<st.last[hits[m]], n>>]]

Step ==
  /\ phase = "run" /\ pc <= Len(body)
  /\ IF body[pc].k = "Unsupported"
     THEN /\ failed' = TRUE /\ phase' = "done"
          /\ UNCHANGED <<body, pc, last, edges, stack, best, npaths>>
     ELSE LET r == StepFn([last |-> last, edges |-> edges], body[pc], pc) IN
          /\ last' = r.last /\ edges' = r.edges /\ pc' = pc + 1
          /\ UNCHANGED <<body, failed, stack, best, npaths, phase>>

\* the whole loop as a fold (used by the trace specification and by the loop invariant)
RECURSIVE LoopFrom(_, _, _)
LoopFrom(b, st, n) == IF n > Len(b) THEN st ELSE LoopFrom(b, StepFn(st, b[n], n), n + 1)
LoopResult(b) == LoopFrom(b, [last |-> EmptyFn, edges |-> <<>>], 1)
Fails(b) == \E n \in DOMAIN b : b[n].k = "Unsupported"

----------------------------------------------------------------------------
\* path_fold / gate_depth
RECURSIVE SetToSeq(_)
SetToSeq(S) == IF S = {} THEN <<>> ELSE LET m == Min(S) IN <<m>> \o SetToSeq(S \ {m})

SourcesOf(b, es) == {n \in DOMAIN b : \A m \in DOMAIN es : es[m][2] # n}    \* externals(Incoming)
SuccSeq(es, n)   == LET out == SelectSeq(es, LAMBDA e : e[1] = n)            \* neighbors_directed(n, Outgoing),
                    IN [m \in DOMAIN out |-> out[m][2]]                       \* one entry per edge
Bump(acc, i)     == [k \in 1..MaxK |-> acc[k] + (IF Counts(i, k) THEN 1 ELSE 0)]
PMax(a, b)       == [k \in 1..MaxK |-> IF a[k] >= b[k] THEN a[k] ELSE b[k]]

StartFold ==
  /\ StepwiseFold /\ phase = "run" /\ pc = Len(body) + 1
  /\ stack' = <<[acc |-> Zero, nodes |-> SetToSeq(SourcesOf(body, edges))]>>
  /\ phase' = "fold" /\ UNCHANGED <<body, pc, last, edges, failed, best, npaths>>

FoldPop ==
  /\ phase = "fold" /\ stack # <<>>
  /\ LET top  == stack[Len(stack)]
         rest == SubSeq(stack, 1, Len(stack) - 1) IN
     IF top.nodes = <<>>
     THEN /\ best' = PMax(best, top.acc) /\ npaths' = npaths + 1 /\ stack' = rest
     ELSE /\ stack' = rest \o [m \in DOMAIN top.nodes |->
                                 [acc |-> Bump(top.acc, body[top.nodes[m]]), nodes |-> SuccSeq(edges, top.nodes[m])]]
          /\ UNCHANGED <<best, npaths>>
  /\ UNCHANGED <<body, pc, last, edges, failed, phase>>

FoldDone ==
  /\ phase = "fold" /\ stack = <<>> /\ phase' = "done"
  /\ UNCHANGED <<body, pc, last, edges, failed, stack, best, npaths>>

\* the same walk as a recursive operator: best accumulator over all paths starting at node n
RECURSIVE LongestFrom(_, _, _, _)
LongestFrom(b, es, n, k) ==
  (IF Counts(b[n], k) THEN 1 ELSE 0) + Max({LongestFrom(b, es, m, k) : m \in Range(SuccSeq(es, n))} \cup {0})
PathMax(b, es, k) == Max({LongestFrom(b, es, n, k) : n \in SourcesOf(b, es)} \cup {0})

RECURSIVE PathsFrom(_, _)
PathsFrom(es, n) == LET s == SuccSeq(es, n) IN
                    IF s = <<>> THEN 1 ELSE LET c[m \in 0..Len(s)] == IF m = 0 THEN 0 ELSE c[m - 1] + PathsFrom(es, s[m])
                                            IN c[Len(s)]
PathCount(b, es) == IF b = <<>> THEN 1
                    ELSE LET src == SetToSeq(SourcesOf(b, es))
                             c[m \in 0..Len(src)] == IF m = 0 THEN 0 ELSE c[m - 1] + PathsFrom(es, src[m])
                         IN c[Len(src)]

FoldAll ==
  /\ ~StepwiseFold /\ phase = "run" /\ pc = Len(body) + 1
  /\ best' = [k \in 1..MaxK |-> PathMax(body, edges, k)] /\ phase' = "done"
  /\ UNCHANGED <<body, pc, last, edges, failed, stack, npaths>>

----------------------------------------------------------------------------
\* The property (C29), stated on the body alone.

OnQubit(b, n, q) == q \in QSet(b[n])
Adjacent(b, i, j) == /\ i < j
                     /\ \E q \in QSet(b[i]) \cap QSet(b[j]) : \A m \in (i + 1)..(j - 1) : ~OnQubit(b, m, q)
\* the qubits that justify the adjacency (the multigraph has one edge per such qubit)
Links(b, i, j) == {q \in QSet(b[i]) \cap QSet(b[j]) : \A m \in (i + 1)..(j - 1) : ~OnQubit(b, m, q)}

IsChain(b, S) == \A i \in S : \A j \in S :
                    (i < j /\ ~\E m \in S : i < m /\ m < j) => Adjacent(b, i, j)
ChainDepth(b, k) == Max({Cardinality({n \in S : Counts(b[n], k)}) : S \in {T \in SUBSET DOMAIN b : IsChain(b, T)}})

\* dynamic programming in program order: t[j] = best chain ending at j
RECURSIVE Table(_, _, _)
Table(b, k, n) == IF n = 0 THEN <<>>
                  ELSE LET t == Table(b, k, n - 1) IN
                       Append(t, (IF Counts(b[n], k) THEN 1 ELSE 0)
                                 + Max({t[i] : i \in {m \in 1..(n - 1) : Adjacent(b, m, n)}} \cup {0}))
TableDepth(b, k) == Max(Range(Table(b, k, Len(b))) \cup {0})

\* invariants -----------------------------------------------------------------
\* loop invariant of QubitGraph::new: last[q] is the latest instruction on q among those consumed
LastExact == (phase = "run" /\ ~failed) =>
   /\ DOMAIN last = UNION {QSet(body[n]) : n \in 1..(pc - 1)}
   /\ \A q \in DOMAIN last : /\ last[q] < pc /\ OnQubit(body, last[q], q)
                             /\ \A m \in (last[q] + 1)..(pc - 1) : ~OnQubit(body, m, q)
\* the edges built so far are exactly the adjacencies among the consumed prefix, one per linking qubit
EdgeCount(es, i, j) == Cardinality({m \in DOMAIN es : es[m] = <<i, j>>})
LoopEdges == ~failed =>
   /\ \A m \in DOMAIN edges : edges[m][1] < edges[m][2] /\ edges[m][2] < pc
   /\ \A i \in 1..(pc - 1) : \A j \in 1..(pc - 1) :
         EdgeCount(edges, i, j) = (IF i < j THEN Cardinality(Links(body, i, j)) ELSE 0)
\* Step and LoopResult are the same loop
LoopIsFold == (phase \in {"fold", "done"} /\ ~failed) =>
   LoopResult(body) = [last |-> last, edges |-> edges]
\* C29: the fold's maximum is the longest chain
PathFoldMax == (phase = "done" /\ ~failed) => \A k \in 1..MaxK : best[k] = TableDepth(body, k)
DPIsChains  == (phase = "done" /\ ~failed) => \A k \in 1..MaxK : TableDepth(body, k) = ChainDepth(body, k)
\* the stack machine and the recursive walk agree; the result vector has one entry per path
FoldIsWalk  == (phase = "done" /\ ~failed) =>
   /\ \A k \in 1..MaxK : best[k] = PathMax(body, edges, k)
   /\ StepwiseFold => npaths = PathCount(body, edges)
\* more of the same component: depth is antitone in the threshold and bounded by the gate count
Antitone    == (phase = "done" /\ ~failed) =>
   /\ \A k \in 1..(MaxK - 1) : best[k] >= best[k + 1]
   /\ best[1] <= Cardinality({n \in DOMAIN body : body[n].k = "Gate"})
FailsExact  == phase = "done" => (failed <=> Fails(body))
=============================================================================
