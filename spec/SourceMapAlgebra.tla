-------------------------- MODULE SourceMapAlgebra --------------------------
(***************************************************************************)
(* The values of a calibration-expansion source map and the operations the *)
(* expansion performs on them (no variables):                              *)
(*                                                                         *)
(*   SourceMap / SourceMapEntry / ExpansionResult   quil-rs/src/program/source_map.rs *)
(*   CalibrationExpansion { calibration_used, range, expansions }          *)
(*   CalibrationExpansion::remove_target_index      quil-rs/src/program/calibration.rs *)
(*                                                                         *)
(* An entry is [s |-> source index, t |-> Unmod(target index) | Rew(d)],   *)
(* an expansion record d is [cal, from, to, exps]: the half-open target    *)
(* range from..to (0-based, as in the code) and the nested entries, whose  *)
(* coordinates are relative to `from`.                                     *)
(***************************************************************************)
EXTENDS Naturals, Sequences, FiniteSets

\* Deviation switch (known finding calibration-source-map-declare-hoisting): TRUE = remove_target_index
\* as the code has it; FALSE = the removal that keeps the map well-formed.
CONSTANT AsBuiltRemove

Unmod(t) == [u |-> t]
Rew(d)   == [r |-> d]
IsRew(t) == "r" \in DOMAIN t
Entry(s, t) == [s |-> s, t |-> t]
Detail(cal, from, to, exps) == [cal |-> cal, from |-> from, to |-> to, exps |-> exps]

Dec(n) == IF n = 0 THEN 0 ELSE n - 1      \* saturating_sub(1)

\* remove_target_index(d, idx): target index idx (relative to the coordinates d.from/d.to live in)
\* disappears from the output, e.g. a DECLARE hoisted out of the body.
RECURSIVE Remove(_, _), RemoveEntries(_, _)
Remove(d, idx) ==
  IF AsBuiltRemove
  THEN \* as built: shift start if start >= idx, shift end if end > idx, then recurse into the Rewritten
       \* entries with idx - (already shifted) start; Unmodified entries are left alone
       LET from2 == IF d.from >= idx THEN Dec(d.from) ELSE d.from
           to2   == IF d.to > idx THEN Dec(d.to) ELSE d.to
       IN IF idx >= from2
          THEN [d EXCEPT !.from = from2, !.to = to2, !.exps = RemoveEntries(d.exps, idx - from2)]
          ELSE [d EXCEPT !.from = from2, !.to = to2]
  ELSE \* by cases: removed before the range (shift), inside it (shrink, recurse), after it (untouched)
       IF idx < d.from THEN [d EXCEPT !.from = d.from - 1, !.to = d.to - 1]
       ELSE IF idx < d.to THEN [d EXCEPT !.to = d.to - 1, !.exps = RemoveEntries(d.exps, idx - d.from)]
       ELSE d
RemoveEntries(es, t) ==
  IF es = <<>> THEN <<>>
  ELSE LET e == Head(es)
           rest == RemoveEntries(Tail(es), t) IN
       IF IsRew(e.t)
       THEN LET c == Remove(e.t.r, t) IN
            IF c.from = c.to THEN rest ELSE <<[e EXCEPT !.t = Rew(c)]>> \o rest   \* retain(!range.is_empty())
       ELSE IF AsBuiltRemove THEN <<e>> \o rest
            ELSE IF e.t.u = t THEN rest
                 ELSE IF e.t.u > t THEN <<[e EXCEPT !.t = Unmod(e.t.u - 1)]>> \o rest
                      ELSE <<e>> \o rest

----------------------------------------------------------------------------
\* The shape half of the property (C19): entries tile a target interval.

SpanFrom(t) == IF IsRew(t) THEN t.r.from ELSE t.u
SpanTo(t)   == IF IsRew(t) THEN t.r.to ELSE t.u + 1

\* "at most one entry per source instruction, in source order"
SourcesAscending(es) == \A n \in 1..(Len(es) - 1) : es[n].s < es[n + 1].s
\* "rewritten ranges are contiguous, disjoint, and together with the unmodified entries cover the
\* output exactly": the spans of the entries, in order, tile [lo, hi) without gap or overlap
TilesLevel(es, lo, hi) ==
  /\ \A n \in 1..Len(es) : SpanFrom(es[n].t) < SpanTo(es[n].t)
  /\ \A n \in 1..(Len(es) - 1) : SpanTo(es[n].t) = SpanFrom(es[n + 1].t)
  /\ (es = <<>> => lo = hi)
  /\ (es # <<>> => SpanFrom(es[1].t) = lo /\ SpanTo(es[Len(es)].t) = hi)

\* "nested expansion records are relative to their parent range and consistent with it": recursively,
\* the nested entries of a record tile [0, to - from).  `skip` is a set of source indices of *this*
\* level whose nested records are not looked at (used by the known-finding filter, {} otherwise).
RECURSIVE Tiles(_, _, _, _)
Tiles(es, lo, hi, skip) ==
  /\ SourcesAscending(es)
  /\ TilesLevel(es, lo, hi)
  /\ \A n \in 1..Len(es) :
       (IsRew(es[n].t) /\ es[n].s \notin skip) =>
          Tiles(es[n].t.r.exps, 0, es[n].t.r.to - es[n].t.r.from, {})

\* the entry (index into es) whose span contains target index t; 0 if none, and the set of all of them
Covering(es, t) == {n \in 1..Len(es) : SpanFrom(es[n].t) <= t /\ t < SpanTo(es[n].t)}
=============================================================================
