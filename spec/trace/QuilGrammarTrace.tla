-------------------------- MODULE QuilGrammarTrace --------------------------
(* Trace validation for QuilGrammar: real-world token streams.  The driver (harness/src/props/c01.rs) takes the
   repository's own Quil texts and seeded byte / char / token mutations of them, runs the five entry points of the
   real parser on each text, tokenizes the text into the token classes of QuilTokens and logs

     reset   {}                         a new history (one input text)
     input   {toks, res, text}          the token stream and the outcome class of each entry point.  NOT a verdict:
                                        the model parser must be total on the stream (TotalOn), and under Strict its
                                        accept/reject opinion must equal the real one where the model has one (Sure)
     verdict {res}                      VERDICT (C01 itself): every entry point returned "ok" or "err" -- never "panic"

   Texts the harness' tokenizer refuses (lexer errors) are not logged here; their no-panic verdict is taken by the
   driver itself and by the crash-isolated replay of all driver texts (mode C01.text). *)
EXTENDS QuilGrammar, Json, IOUtils, TLC
CONSTANT Strict

Rec == ndJsonDeserialize(IOEnv.TRACE)
VARIABLES l,      \* next record
          stage,  \* "reset" | "input" | "verdict": position inside the current history
          last    \* the outcomes logged by the history's input event
tvars == <<l, stage, last>>
NoRes == [program |-> "", instruction |-> "", expression |-> "", memref |-> "", frame |-> ""]
TInit == l = 1 /\ stage = "verdict" /\ last = NoRes
IsEvent(e) == l <= Len(Rec) /\ Rec[l].ev = e /\ l' = l + 1

TReset == IsEvent("reset") /\ stage' = "reset" /\ last' = NoRes
SameOutcomes(o, res) == \A e \in DOMAIN o : o[e] = res[e]
TInput == /\ IsEvent("input") /\ stage = "reset"
          /\ \A k \in DOMAIN Rec[l].toks : ClassOK(Rec[l].toks[k])
          /\ TotalOn(Rec[l].toks)
          /\ ConsistentOn(Rec[l].toks)
          /\ (Strict /\ Sure(Rec[l].toks) => SameOutcomes(Outcomes(Rec[l].toks), Rec[l].res))
          /\ stage' = "input" /\ last' = [e \in DOMAIN NoRes |-> Rec[l].res[e]]
TVerdict == /\ IsEvent("verdict") /\ stage = "input"
            /\ \A e \in DOMAIN NoRes : Rec[l].res[e] \in {"ok", "err"} /\ Rec[l].res[e] = last[e]
            /\ stage' = "verdict" /\ UNCHANGED last
TNext == TReset \/ TInput \/ TVerdict
TSpec == TInit /\ [][TNext]_tvars

Accepted == LET n == TLCGet("stats").diameter - 1 IN
            IF n = Len(Rec) THEN TRUE ELSE Print(<<"REJECTED_AT", n + 1, Rec[n + 1].ev>>, FALSE)
=============================================================================
