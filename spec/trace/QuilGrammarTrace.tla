-------------------------- MODULE QuilGrammarTrace --------------------------
(* Trace validation for QuilGrammar: real-world token streams.  The driver (harness/src/props/c01.rs) takes the
   repository's own Quil texts and seeded byte / char / token mutations of them, runs the five entry points of the
   real parser on each text, tokenizes the text into the token classes of QuilTokens and logs

     reset   {}                         a new history (one input text)
     input   {toks, res, text}          the token stream and the outcome class of each entry point.  NOT a verdict:
                                        the model parser must be total on the stream (TotalOn), and under Strict its
                                        accept/reject opinion must equal the real one where the model has one (Sure)
     verdict {res}                      VERDICT (C01 itself): every entry point returned "ok" or "err" -- never "panic"

   Texts the harness' tokenizer refuses (lexer errors) are not logged here; their no-panic verdict is taken by the
   driver itself and by the crash-isolated replay of all driver texts (mode C01.text). *)
EXTENDS QuilGrammar, Json, IOUtils, TLC
CONSTANT Strict

Rec == ndJsonDeserialize(IOEnv.TRACE)
VARIABLE l
TInit == l = 1
IsEvent(e) == l <= Len(Rec) /\ Rec[l].ev = e /\ l' = l + 1

TReset == IsEvent("reset")
SameOutcomes(o, res) == \A e \in DOMAIN o : o[e] = res[e]
TInput == /\ IsEvent("input")
          /\ \A k \in DOMAIN Rec[l].toks : ClassOK(Rec[l].toks[k])
          /\ TotalOn(Rec[l].toks)
          /\ ConsistentOn(Rec[l].toks)
          /\ (Strict /\ Sure(Rec[l].toks) => SameOutcomes(Outcomes(Rec[l].toks), Rec[l].res))
TVerdict == /\ IsEvent("verdict")
            /\ \A e \in {"program", "instruction", "expression", "memref", "frame"} : Rec[l].res[e] \in {"ok", "err"}
TNext == TReset \/ TInput \/ TVerdict
TSpec == TInit /\ [][TNext]_l

Accepted == LET n == TLCGet("stats").diameter - 1 IN
            IF n = Len(Rec) THEN TRUE ELSE Print(<<"REJECTED_AT", n + 1, Rec[n + 1].ev>>, FALSE)
=============================================================================
