--------------------------- MODULE TypeCheckTrace ---------------------------
(* Trace validation for TypeCheck: verdicts of the real type_check on programs larger than the exhaustive
   bound (harness/src/props/c30.rs, drive) are judged by TLC.

     reset   {decls, body}         a new history: declarations [name, ty] and the body
     check   {ok, per}             type_check(program).is_ok(), and the same for every one-instruction
                                   program (same declarations), in body order
     variant {via, .., ok}         the verdict of a transformed program: via = "swap" (i, j), "dup" (i),
                                   "rename" (pairs [from, to]); TLC recomputes nothing but the verdict law

   `check` and `variant` are the verdict events.  What they demand is the statement (C30), on the recorded
   real verdicts:
     (1) ok = AND of per                                            per-instruction decomposition
     (2) per[m] = RealValued(decls, e) for every SET-*/SHIFT-* m    the real-valuedness rule
     (3) variant.ok = ok                                            renaming / reordering / duplicating
   Strict = TRUE additionally compares every per[m] with the model's rule table InstrOk and every variant
   verdict with ProgramOk of the variant the model derives itself (MODEL-DIVERGENCE only).              *)
EXTENDS TypeCheck, Json, IOUtils
CONSTANT Strict

Rec == ndJsonDeserialize(IOEnv.TRACE)
VARIABLE l
tvars == <<vars, l>>

DeclFn(ds) == [x \in {ds[m].name : m \in DOMAIN ds} |-> ds[CHOOSE m \in DOMAIN ds : ds[m].name = x].ty]
PairFn(ps) == [x \in {ps[m].from : m \in DOMAIN ps} |-> ps[CHOOSE m \in DOMAIN ps : ps[m].from = x].to]

TInit == /\ l = 1 /\ decls = <<>> /\ body = <<>> /\ base = [decls |-> <<>>, body |-> <<>>, via |-> "none"]
         /\ pc = 1 /\ verdict = None /\ phase = "done"
IsEvent(e) == l <= Len(Rec) /\ Rec[l].ev = e /\ l' = l + 1

TReset == /\ IsEvent("reset") /\ phase = "done"
          /\ decls' = DeclFn(Rec[l].decls) /\ body' = Rec[l].body
          /\ base' = [decls |-> DeclFn(Rec[l].decls), body |-> Rec[l].body, via |-> "none"]
          /\ pc' = 1 /\ verdict' = None /\ phase' = "run"

FirstFalse(per) == IF \E m \in DOMAIN per : ~per[m] THEN Min({m \in DOMAIN per : ~per[m]}) ELSE 0
TCheck == /\ IsEvent("check") /\ phase = "run"
          /\ LET per == Rec[l].per IN
             /\ Len(per) = Len(body)
             /\ Rec[l].ok = (\A m \in DOMAIN per : per[m])                                           \* (1)
             /\ \A m \in DOMAIN body : body[m].k = "SetShift" => per[m] = RealValued(decls, body[m].e) \* (2)
             /\ Strict => \A m \in DOMAIN body : per[m] = InstrOk(decls, body[m])
             /\ verdict' = (IF Rec[l].ok THEN None ELSE Some(FirstFalse(per)))
          /\ phase' = "done" /\ UNCHANGED <<decls, body, base, pc>>

VariantOf(r) ==
  CASE r.via = "swap"   -> [decls |-> decls, body |-> SwapAt(body, r.i, r.j)]
    [] r.via = "dup"    -> [decls |-> decls, body |-> DupAt(body, r.i)]
    [] r.via = "rename" -> [decls |-> RenDecls(PairFn(r.pairs), decls), body |-> RenBody(PairFn(r.pairs), body)]
TVariant == /\ IsEvent("variant") /\ phase = "done" /\ body # <<>>
            /\ Rec[l].via \in {"swap", "dup", "rename"}
            /\ Rec[l].ok = IsNone(verdict)                                                           \* (3)
            /\ Strict => LET v == VariantOf(Rec[l]) IN Rec[l].ok = ProgramOk(v.decls, v.body)
            /\ UNCHANGED vars

TNext == TReset \/ TCheck \/ TVariant
TSpec == TInit /\ [][TNext]_tvars

Accepted == LET n == TLCGet("stats").diameter - 1 IN
            IF n = Len(Rec) THEN TRUE ELSE Print(<<"REJECTED_AT", n + 1, Rec[n + 1]>>, FALSE)
=============================================================================
