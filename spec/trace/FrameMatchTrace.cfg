SPECIFICATION TSpec
POSTCONDITION Accepted
CHECK_DEADLOCK FALSE
