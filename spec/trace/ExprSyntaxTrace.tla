------------------------- MODULE ExprSyntaxTrace -------------------------
(* Trace validation for ExprSyntax: the real printer and parser are run on seeded random trees far beyond
   the exhaustive bound (harness/src/props/c03.rs, depth up to 6, full literal alphabet, all five
   functions) and the recorded results are judged with the module's own definitions.

     reset {tree}          a new history: the expression handed to to_quil
     print {text}          Some(text) returned by Expression::to_quil, or None
     parse {parsed}        Some(tree) returned by Expression::from_str(text), or None
     done  {}              verdict: the property on (tree, recorded re-parsed tree)

   Strict = TRUE : the print event must be explained by the model's ToQuil action with exactly the
                   recorded text, the parse event by FromStr with exactly the recorded tree.
   Strict = FALSE: print/parse only record; the verdict at `done` is the property itself evaluated by TLC
                   on the recorded real output: the text exists, it parsed, and the re-parsed tree has the
                   value of the original in GF(1009) under every assignment of Envs.                      *)
EXTENDS ExprSyntax, Json, IOUtils
CONSTANT Strict

Rec == ndJsonDeserialize(IOEnv.TRACE)
VARIABLES l,        \* next record
          rtext,    \* recorded: to_quil succeeded
          rparsed   \* recorded: Some(re-parsed tree) / None
tvars == <<vars, l, rtext, rparsed>>

TInit == l = 1 /\ Fresh(PiC) /\ rtext = FALSE /\ rparsed = None
IsEvent(e) == l <= Len(Rec) /\ Rec[l].ev = e /\ l' = l + 1

TReset == /\ IsEvent("reset")
          /\ tree' = Rec[l].tree /\ phase' = "gen" /\ pieces' = <<>> /\ result' = NoResult
          /\ rtext' = FALSE /\ rparsed' = None

TPrint == /\ IsEvent("print")
          /\ rtext' = IsSome(Rec[l].text) /\ UNCHANGED rparsed
          /\ IF Strict
             THEN ToQuil /\ Rec[l].text = Some(TextOf(pieces'))
             ELSE phase = "gen" /\ phase' = "printed" /\ UNCHANGED <<tree, pieces, result>>

TParse == /\ IsEvent("parse")
          /\ rparsed' = Rec[l].parsed /\ UNCHANGED rtext
          /\ IF Strict
             THEN FromStr /\ Rec[l].parsed = (IF IsErr(result') THEN None ELSE Some(result'.e))
             ELSE phase = "printed" /\ phase' = "parsed" /\ UNCHANGED <<tree, pieces, result>>

\* the property, on the recorded real results
TDone == /\ IsEvent("done")
         /\ phase = "parsed"
         /\ rtext /\ IsSome(rparsed) /\ SameValue(rparsed.some, tree)
         /\ UNCHANGED <<vars, rtext, rparsed>>

TNext == TReset \/ TPrint \/ TParse \/ TDone
TSpec == TInit /\ [][TNext]_tvars

Accepted == LET n == TLCGet("stats").diameter - 1 IN
            IF n = Len(Rec) THEN TRUE ELSE Print(<<"REJECTED_AT", n + 1, Rec[n + 1]>>, FALSE)
=============================================================================
