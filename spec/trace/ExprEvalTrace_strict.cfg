SPECIFICATION TSpec
CONSTANT Strict = TRUE
CONSTANT Deviations = {}
POSTCONDITION Accepted
CHECK_DEADLOCK FALSE
