--------------------------- MODULE GateDepthTrace ---------------------------
(* Trace validation for GateDepth: results recorded from the real QubitGraph on bodies larger than the
   exhaustive bound (harness/src/props/c29.rs, drive) are judged by TLC with the module's definitions.

     reset {body, res}    a new history: the block handed to QubitGraph::try_from_basic_block and whether
                          the constructor succeeded ("ok" | "err")
     depth {k, depth}     the value gate_depth(k) returned

   The graph itself is private, so there is one record per public call (no per-iteration events).  On
   `reset` the model runs its own transcription of the builder loop (LoopResult) on the recorded body.
   `depth` is the verdict event: the recorded value must be the longest chain of the statement
   (TableDepth, computed from the body alone).
   Strict = TRUE additionally demands: `res` is what the model's role check says, and the recorded depth
   equals the path-fold maximum over the edges the model's loop built (binding of the transcription).  *)
EXTENDS GateDepth, Json, IOUtils
CONSTANT Strict

Rec == ndJsonDeserialize(IOEnv.TRACE)
VARIABLE l
tvars == <<vars, l>>

TInit == l = 1 /\ RunInit(<<>>) /\ phase = "done"
IsEvent(e) == l <= Len(Rec) /\ Rec[l].ev = e /\ l' = l + 1

\* a history is reset, then (unless the constructor failed) depth for k = 1, 2, .., MaxK in this order;
\* npaths (unused otherwise here) counts the depth events seen
TReset == /\ IsEvent("reset")
          /\ phase = "done" \/ failed \/ npaths = MaxK
          /\ LET b == Rec[l].body
                 r == IF Fails(b) THEN [last |-> EmptyFn, edges |-> <<>>] ELSE LoopResult(b) IN
             /\ \A n \in DOMAIN b : WellFormedInstr(b[n])
             /\ Strict => (Rec[l].res = (IF Fails(b) THEN "err" ELSE "ok"))
             /\ body' = b /\ pc' = Len(b) + 1 /\ last' = r.last /\ edges' = r.edges
             /\ failed' = (Rec[l].res = "err")
             /\ stack' = <<>> /\ best' = Zero /\ npaths' = 0 /\ phase' = "run"

TDepth == /\ IsEvent("depth")
          /\ phase = "run" /\ ~failed
          /\ Rec[l].k = npaths + 1 /\ Rec[l].k \in 1..MaxK /\ npaths' = npaths + 1
          /\ Rec[l].depth = TableDepth(body, Rec[l].k)                       \* C29
          /\ Strict => Rec[l].depth = PathMax(body, edges, Rec[l].k)
          /\ best' = [best EXCEPT ![Rec[l].k] = Rec[l].depth]
          /\ UNCHANGED <<body, pc, last, edges, failed, stack, phase>>

TNext == TReset \/ TDepth
TSpec == TInit /\ [][TNext]_tvars

Accepted == LET n == TLCGet("stats").diameter - 1 IN
            IF n = Len(Rec) THEN TRUE ELSE Print(<<"REJECTED_AT", n + 1, Rec[n + 1]>>, FALSE)
=============================================================================
