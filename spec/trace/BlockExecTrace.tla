--------------------------- MODULE BlockExecTrace ---------------------------
(* Recorded real control-flow graphs (harness/src/props/x01.rs: random bodies with memory-dependent
   jumps -> ControlFlowGraph::from) are *executed* by TLC: the flat machine on the body and the block
   machine on the real blocks, in lock-step for Fuel steps.   reset {body, blocks}                   *)
EXTENDS BlockExec, Json, IOUtils
CONSTANT Fuel
Rec == ndJsonDeserialize(IOEnv.TRACE)
VARIABLE l
TInit == l = 1 /\ RunInit(<<>>) /\ phase = "done" /\ ExecInit /\ fuel = 0
TReset == /\ l <= Len(Rec) /\ Rec[l].ev = "reset" /\ l' = l + 1
          /\ (RunFaithful(Rec[l].body, Rec[l].blocks, ExecState0, Fuel) = TRUE)
          /\ body' = Rec[l].body /\ blocks' = Rec[l].blocks
          /\ UNCHANGED <<pc, openLabel, openInstrs, offset, phase, evars>>
TSpec == TInit /\ [][TReset]_<<allvars, l>>
Accepted == LET n == TLCGet("stats").diameter - 1 IN
            IF n = Len(Rec) THEN TRUE ELSE Print(<<"REJECTED_AT", n + 1>>, FALSE)
=============================================================================
