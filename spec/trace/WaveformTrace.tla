--------------------------- MODULE WaveformTrace ---------------------------
(* Trace validation for Waveform: histories recorded from the real code by harness/src/props/c32.rs.

     reset  {kind, rate, dur, padL, padR, own, scale, phase, detuning, res}
                     a parameter set with some parameters unknown, and what
                     partial_iq_values_at_sample_rate returned for it
     supply {p, v, res}    parameter p ("scale" | "phase" | "detuning" | an own parameter) becomes known
                     (v: value label, "0" iff the value is zero), and the new result
     detail {res}    the same result again, to be compared with the model's transcription exactly

   res = {t, shape, len, zeros} is the projection of the real result (zeros: every sample is 0).
   reset / supply are verdict events: they demand the module's action and the PROPERTY predicates
   (LengthOf, ShapeOf, MisalignedOf) of the recorded result.  detail events (Strict only) demand
   equality with ResultOf, i.e. also the representation (Flat / Samples); a mismatch there is a
   divergence of the model, not a violation.                                                       *)
EXTENDS Waveform, Json, IOUtils
CONSTANT Strict

Rec == ndJsonDeserialize(IOEnv.TRACE)
VARIABLE l
tvars == <<vars, l>>

TInit == l = 1 /\ WInit("boxcar_kernel", "1", Q(0, 1), Q(0, 1), Q(0, 1))
IsEvent(e) == l <= Len(Rec) /\ Rec[l].ev = e /\ l' = l + 1

\* JSON objects arrive as records: own parameters keep their names; the empty object is the empty function
Judged(s, r) == LengthOf(s, r) /\ ShapeOf(s, r) /\ MisalignedOf(s, r)

TReset == /\ IsEvent("reset")
          /\ kind' = Rec[l].kind /\ rate' = Rec[l].rate /\ dur' = Rec[l].dur
          /\ padL' = Rec[l].padL /\ padR' = Rec[l].padR
          /\ own' = [p \in OwnParams(Rec[l].kind) |-> Rec[l].own[p]]
          /\ scale' = Rec[l].scale /\ phase' = Rec[l].phase /\ detuning' = Rec[l].detuning
          /\ Rec[l].kind \in Kinds
          /\ Judged(Cur', Rec[l].res)
TSupply == /\ IsEvent("supply")
           /\ LET p == Rec[l].p IN
              CASE p = "scale" -> SupplyScale(Rec[l].v)
                [] p = "phase" -> SupplyPhase(Rec[l].v)
                [] p = "detuning" -> SupplyDetuning(Rec[l].v)
                [] OTHER -> SupplyOwn(p)
           /\ Judged(Cur', Rec[l].res)
           \* relation to the previous run, recorded in the event: the length did not change
           /\ Rec[l].res.t # "error" => Rec[l].res.len = Rec[l].prev_len
TDetail == /\ IsEvent("detail")
           /\ Strict => LET m == ResultOf(Cur)  r == Rec[l].res IN
                         \* m.zeros means "zero by construction"; real samples may also happen to be zero
                         r.t = m.t /\ r.shape = m.shape /\ r.len = m.len /\ (m.zeros => r.zeros)
           /\ UNCHANGED vars

TNext == TReset \/ TSupply \/ TDetail
TSpec == TInit /\ [][TNext]_tvars

Accepted == LET k == TLCGet("stats").diameter - 1 IN
            IF k = Len(Rec) THEN TRUE ELSE Print(<<"REJECTED_AT", k + 1, Rec[k + 1]>>, FALSE)
=============================================================================
