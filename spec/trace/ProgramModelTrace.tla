------------------------- MODULE ProgramModelTrace -------------------------
(* Trace validation for ProgramModel: histories recorded from real `Program` values
   (harness/src/props/c08.rs, drive) are replayed against the module's operations.

     reset     {sym}                     a new history; sym = the instruction records it uses
     <op>      {dst, a, b, i, is, ...,   one public call (New, Add, AddMany, FromInstructions, Concat,
                post, [kf]}              AddAssign, Clone, CloneWithoutBody, Resolve, Filter, Supplied) with its
                                         arguments (instructions by id) and the projected real post-state of
                                         the written register: listing, used, len, and A == B
     Obs       {A, B, eq, ...}           the public observations of both registers: to_instructions,
                                         into_instructions, get_used_qubits, len, ==, the rebuild round trip,
                                         RESET frame matching, whether to_quil lists the instructions in
                                         listing order, (C08) the determinism verdict of three builds
     ObsText   {r, text}                 to_quil of one register (binding only)
     ObsConcat {a, b, c, ...}            real operands and real result of the concatenation just performed

   Strict = TRUE : every operation must be explained by the model: Apply gives exactly the logged post-state
                   (binding at call granularity; a rejection here is a model divergence, not a verdict).
   Strict = FALSE: the logged post-state is adopted; the ghost log and exclusions follow the model.
   In both modes the verdict is what the property of `Judge` demands of the *recorded real observations*
   (Obs / ObsConcat events), and the property's invariants evaluated in every state.

   A record carrying `kf` was recognised by the harness as the exact shape of known finding 16
   (clone_without_body_instructions drops the qubits of retained calibrations): for that step the model
   follows the as-built deviation, and the value is excluded from the used-qubit verdicts until its cache is
   rebuilt.                                                                                                 *)
EXTENDS ProgramModel, Json, IOUtils
CONSTANTS Strict, Judge

Rec == ndJsonDeserialize(IOEnv.TRACE)
VARIABLES l, sym
tvars == <<regs, l, sym>>

MutEvents == {"New", "Add", "AddMany", "FromInstructions", "Concat", "AddAssign", "Clone", "CloneWithoutBody",
              "Resolve", "Filter", "Supplied"}

DecI(r) == [id |-> r.id, k |-> r.k, key |-> r.key, text |-> r.text, qs |-> Range(r.qs), g |-> r.g]
SymTable(list) == [id \in {list[n].id : n \in DOMAIN list} |->
                     DecI(list[CHOOSE n \in DOMAIN list : list[n].id = id])]
SS(ids) == [n \in DOMAIN ids |-> sym[ids[n]]]

OpOf(e) ==
  CASE e.ev = "New"              -> [ev |-> "New", dst |-> e.dst]
    [] e.ev = "Add"              -> [ev |-> "Add", dst |-> e.dst, i |-> sym[e.i]]
    [] e.ev = "AddMany"          -> [ev |-> "AddMany", dst |-> e.dst, is |-> SS(e.is)]
    [] e.ev = "FromInstructions" -> [ev |-> "FromInstructions", dst |-> e.dst, is |-> SS(e.is)]
    [] e.ev = "Concat"           -> [ev |-> "Concat", dst |-> e.dst, a |-> e.a, b |-> e.b]
    [] e.ev = "AddAssign"        -> [ev |-> "AddAssign", dst |-> e.dst, b |-> e.b]
    [] e.ev = "Clone"            -> [ev |-> "Clone", dst |-> e.dst, a |-> e.a]
    [] e.ev = "CloneWithoutBody" -> [ev |-> "CloneWithoutBody", dst |-> e.dst, a |-> e.a]
    [] e.ev = "Resolve"          -> [ev |-> "Resolve", mode |-> e.mode, dst |-> e.dst, map |-> e.map]
    [] e.ev = "Filter"           -> [ev |-> "Filter", dst |-> e.dst, a |-> e.a, drop |-> e.drop]
    [] e.ev = "Supplied"         -> [ev |-> "Supplied", name |-> e.name, dst |-> e.dst, a |-> e.a,
                                     listing |-> SS(e.listing)]

TInit == l = 1 /\ Init /\ sym = <<>>

TReset == /\ l <= Len(Rec) /\ Rec[l].ev = "reset" /\ l' = l + 1
          /\ sym' = SymTable(Rec[l].sym)
          /\ regs' = [r \in Regs |-> EmptyProg]

PostMatches(R, r, post) == /\ Ids(Listing(R[r])) = post.listing
                           /\ R[r].used = Range(post.used)
                           /\ LenOf(R[r]) = post.len
                           /\ EqProg(R["A"], R["B"]) = post.eq

Adopt(mp, post) == LET L == SS(post.listing) IN
                   [mp EXCEPT !.tbl = [t \in TableSet |-> TableOf(L, t)], !.body = SelectSeq(L, IsBody),
                              !.used = Range(post.used)]

TMut == /\ l <= Len(Rec) /\ Rec[l].ev \in MutEvents /\ l' = l + 1 /\ UNCHANGED sym
        /\ LET e  == Rec[l]
               kf == "kf" \in DOMAIN e
               D  == IF kf THEN Deviations \cup {"CloneDropsCalibrationQubits"} ELSE Deviations
               m0 == Apply(regs, OpOf(e), D)
               m  == IF kf THEN [m0 EXCEPT ![e.dst].excl = {"kf16"}] ELSE m0
           IN IF Strict
              THEN /\ PostMatches(m, e.dst, e.post)
                   \* the recorded default resolutions are the documented ones (binding only)
                   /\ ((e.ev = "Resolve" /\ e.mode = "default") => e.map = DefaultResolver(regs[e.dst]))
                   /\ (e.ev = "Supplied" => SuppliedFrameOk(e.name, regs[e.a], m[e.dst]))
                   /\ regs' = m
              ELSE regs' = [m EXCEPT ![e.dst] = Adopt(m[e.dst], e.post)]

\* what each property demands of the recorded observations of one register
ObsReg(e, r) ==
  LET x == e[r]  p == regs[r]  L == SS(x.listing) IN
  /\ ("C08" \in Judge => /\ ListingOrderLaw(L, p.log)
                         /\ x.text_ordered
                         /\ ("det" \in DOMAIN e => e.det))
  /\ ("C09" \in Judge => /\ x.into = x.listing
                         /\ (p.excl = {} => x.rebuilt_eq)
                         /\ x.rebuilt_text
                         /\ ListingBodyLaw(L, p.log)
                         /\ ListingLastValueLaw(L, p.log))
  /\ ("C10" \in Judge => (p.excl = {} => Range(x.used) = QubitsOfSeq(L)))

TObs == /\ l <= Len(Rec) /\ Rec[l].ev = "Obs" /\ l' = l + 1 /\ UNCHANGED <<regs, sym>>
        /\ LET e == Rec[l] IN
           /\ \A r \in Regs : ObsReg(e, r)
           /\ ("C10" \in Judge =>
                 ((e["A"].listing = e["B"].listing /\ regs["A"].excl = {} /\ regs["B"].excl = {})
                     => (e.eq /\ e.reset_frames_same)))

\* the serialized text of one register: binding only (the exact layout of the text is no property's observable)
TObsText == /\ l <= Len(Rec) /\ Rec[l].ev = "ObsText" /\ l' = l + 1 /\ UNCHANGED <<regs, sym>>
            /\ (Strict => Rec[l].text = ToQuil(regs[Rec[l].r]))

\* C11 (and the order part, C08) on the recorded real operands and result (relational: the model state is not
\* consulted)
TObsConcat ==
        /\ l <= Len(Rec) /\ Rec[l].ev = "ObsConcat" /\ l' = l + 1 /\ UNCHANGED <<regs, sym>>
        /\ LET e == Rec[l]
               a == ProgOfListing(SS(e.a.listing), Range(e.a.used))
               b == ProgOfListing(SS(e.b.listing), Range(e.b.used))
               c == ProgOfListing(SS(e.c.listing), Range(e.c.used))
           IN /\ ("C11" \in Judge =>
                   /\ ConcatKeyValueLawOf(a, b, c)
                   /\ (~PullApart(a, b) => ConcatUsedLawOf(a, b, c))
                   /\ e.plus_is_assign
                   /\ e.identity)
              /\ ("C08" \in Judge => ConcatOrderLawOf(a, b, c))

TNext == TReset \/ TMut \/ TObs \/ TObsText \/ TObsConcat
TSpec == TInit /\ [][TNext]_tvars

Accepted == LET n == TLCGet("stats").diameter - 1 IN
            IF n = Len(Rec) THEN TRUE ELSE Print(<<"REJECTED_AT", n + 1, Rec[n + 1]>>, FALSE)
=============================================================================
