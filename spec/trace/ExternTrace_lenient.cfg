SPECIFICATION TSpec
CONSTANT Strict = FALSE
POSTCONDITION Accepted
CHECK_DEADLOCK FALSE
