SPECIFICATION TSpec
CONSTANT Strict = FALSE
CONSTANT MaxK = 4
CONSTANT StepwiseFold = FALSE
POSTCONDITION Accepted
CHECK_DEADLOCK FALSE
