SPECIFICATION TSpec
CONSTANT Deviations = {}
CONSTANT Strict = FALSE
POSTCONDITION Accepted
CHECK_DEADLOCK FALSE
