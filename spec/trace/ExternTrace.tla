---------------------------- MODULE ExternTrace ----------------------------
(* Trace validation for Extern: results recorded from the real code (harness/src/props/c31.rs) on
   signatures and calls larger than the exhaustive bound are judged by TLC with the module's definitions.

     reset    {sig, decls}       a new history: a signature (built through the public constructors) and
                                 the declared memory regions
     print    {reparsed}         Some(signature the printed text parses back to; the two routes
                                 from_str / pragma map agree) or None                       (C31 verdict)
     lex      {tokens}           the printed text, tokenized by the harness             (Strict only)
     call     {args, ok, judged} Call::resolve_arguments against (sig, decls): Ok or Err    (C31 verdict;
                                 judged = FALSE for calls with a bare region name in a scalar slot, which
                                 the statement does not decide)
     callinfo {outcome}          the resolved arguments / the collected errors          (Strict only)

   Verdict events carry only what the statement names: print demands reparsed = the signature; call
   demands ok <=> Resolves.  Strict = TRUE additionally demands (MODEL-DIVERGENCE level) that the printed
   tokens are PrintSig, that ParseSig accepts them with the same result, and that the recorded outcome
   equals the module's loop (ResolveAll).                                                             *)
EXTENDS Extern, Json, IOUtils
CONSTANT Strict

Rec == ndJsonDeserialize(IOEnv.TRACE)
VARIABLE l
tvars == <<vars, l>>

\* `phase` tracks the protocol of a history: reset ("fresh") -> print ("printed") -> lex ("ready") ->
\* (call ("called") -> callinfo ("ready"))*, so that a missing or repeated record is rejected.
TInit == /\ l = 1 /\ sig = Sig(None, <<>>) /\ decls = <<>> /\ args = <<>> /\ phase = "ready"
         /\ i = 1 /\ resolved = <<>> /\ errors = <<>> /\ outcome = None
IsEvent(e) == l <= Len(Rec) /\ Rec[l].ev = e /\ l' = l + 1
Keep == UNCHANGED <<sig, decls, i, resolved, errors, outcome>>
Stage(from, to) == phase = from /\ phase' = to

TReset == /\ IsEvent("reset") /\ Stage("ready", "fresh")
          /\ sig' = Rec[l].sig /\ decls' = Rec[l].decls /\ args' = <<>>
          /\ UNCHANGED <<i, resolved, errors, outcome>>

\* C31, first sentence, on the recorded real round trip
TPrint == /\ IsEvent("print") /\ Stage("fresh", "printed") /\ ValidSig(sig) /\ Rec[l].reparsed = Some(sig) /\ Keep /\ UNCHANGED args

TLex == /\ IsEvent("lex") /\ Stage("printed", "ready")
        /\ (Strict => (Rec[l].tokens = PrintSig(sig) /\ ParseSig(Rec[l].tokens) = Ok(sig)))
        /\ Keep /\ UNCHANGED args

\* C31, second sentence, on a recorded real call
TCall == /\ IsEvent("call") /\ Stage("ready", "called")
         /\ (Rec[l].judged => (Rec[l].ok <=> Resolves(Rec[l].args, sig, decls)))
         /\ args' = Rec[l].args /\ Keep

TCallInfo == /\ IsEvent("callinfo") /\ Stage("called", "ready")
             /\ (Strict => Rec[l].outcome = ResolveAll(args, sig, decls))
             /\ Keep /\ UNCHANGED args

TNext == TReset \/ TPrint \/ TLex \/ TCall \/ TCallInfo
TSpec == TInit /\ [][TNext]_tvars

Accepted == LET n == TLCGet("stats").diameter - 1 IN
            IF n = Len(Rec) THEN TRUE ELSE Print(<<"REJECTED_AT", n + 1, Rec[n + 1]>>, FALSE)
=============================================================================
