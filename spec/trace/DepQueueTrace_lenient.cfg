SPECIFICATION TSpec
CONSTANT Strict = FALSE
INVARIANT ConflictsOrdered
INVARIANT DepsJustified
INVARIANT ReadsUnordered
POSTCONDITION Accepted
CHECK_DEADLOCK FALSE
