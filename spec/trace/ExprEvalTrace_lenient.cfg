SPECIFICATION TSpec
CONSTANT Strict = FALSE
CONSTANT Deviations = {}
POSTCONDITION Accepted
CHECK_DEADLOCK FALSE
