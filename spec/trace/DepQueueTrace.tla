--------------------------- MODULE DepQueueTrace ---------------------------
(* Trace validation for one DependencyQueue cell: access sequences pushed through the real queue by the
   verif hook (harness/src/props/c22.rs, drive_queue) are replayed against DepQueueRun.

     reset {inst}             a fresh queue of the given instance ("mem" | "frame")
     rec   {n, k, deps}       record_access_and_get_dependencies(node n, kind k) returned deps
     pend  {pending}          into_pending_dependencies returned pending

   Strict = TRUE : every event must be explained by the model with exactly the recorded sets (the queue as
                   built: last writer, plus for a write the reads since); a rejection is MODEL-DIVERGENCE.
   Strict = FALSE: the recorded sets are adopted, and the *property* is judged on them as invariants
                   (DepQueueTrace_lenient.cfg): ConflictsOrdered (every conflicting pair ordered, possibly
                   transitively), DepsJustified (every reported dependency links a conflicting pair, under the
                   right access type), ReadsUnordered.  A queue that reports fewer, but sufficient, dependencies
                   (e.g. leaving out a write-to-write dependency implied by an intervening read) is accepted. *)
EXTENDS DepQueueRun, Json, IOUtils
CONSTANT Strict

Rec == ndJsonDeserialize(IOEnv.TRACE)
VARIABLE l
tvars == <<qvars, l>>

ToDeps(js) == {[n |-> js[p].n, t |-> js[p].t] : p \in DOMAIN js}

TInit == l = 1 /\ QInit("mem") /\ qphase = "run"
IsEvent(e) == l <= Len(Rec) /\ Rec[l].ev = e /\ l' = l + 1

TReset == /\ IsEvent("reset")
          /\ inst' = Rec[l].inst /\ cell' = NewCell(Rec[l].inst) /\ hist' = <<>> /\ pending' = {}
          /\ qphase' = "run"
TRec == /\ IsEvent("rec")
        /\ IF Strict
           THEN /\ Record(Rec[l].n, Rec[l].k)
                /\ hist'[Len(hist')].deps = ToDeps(Rec[l].deps)
           ELSE /\ qphase = "run" /\ Rec[l].k \in KindsOf(inst)
                /\ hist' = Append(hist, [n |-> Rec[l].n, k |-> Rec[l].k, deps |-> ToDeps(Rec[l].deps)])
                /\ cell' = After(cell, Rec[l].n, Rec[l].k)
                /\ UNCHANGED <<inst, pending, qphase>>
TPend == /\ IsEvent("pend")
         /\ IF Strict
            THEN TakePending /\ pending' = ToDeps(Rec[l].pending)
            ELSE /\ qphase = "run" /\ qphase' = "done" /\ pending' = ToDeps(Rec[l].pending)
                 /\ UNCHANGED <<inst, cell, hist>>

TNext == TReset \/ TRec \/ TPend
TSpec == TInit /\ [][TNext]_tvars

Accepted == LET n == TLCGet("stats").diameter - 1 IN
            IF n = Len(Rec) THEN TRUE ELSE Print(<<"REJECTED_AT", n + 1, Rec[n + 1]>>, FALSE)
=============================================================================
