--------------------------- MODULE DepQueueTrace ---------------------------
(* Trace validation for one DependencyQueue cell: access sequences pushed through the real queue by the
   verif hook (harness/src/props/c22.rs, drive_queue) are replayed against DepQueueRun.

     reset {inst}             a fresh queue of the given instance ("mem" | "frame")
     rec   {n, k, deps}       record_access_and_get_dependencies(node n, kind k) returned deps
     pend  {pending}          into_pending_dependencies returned pending

   The queue's contract is the property (C23): every event must be explained by the model with exactly the
   recorded sets, so every rejection is a verdict.  The declarative contract (DepsExact, PendingExact) and the
   representation invariant (CellExact) are evaluated on the replayed sequence as invariants.            *)
EXTENDS DepQueueRun, Json, IOUtils

Rec == ndJsonDeserialize(IOEnv.TRACE)
VARIABLE l
tvars == <<qvars, l>>

ToDeps(js) == {[n |-> js[p].n, t |-> js[p].t] : p \in DOMAIN js}

TInit == l = 1 /\ QInit("mem") /\ qphase = "run"
IsEvent(e) == l <= Len(Rec) /\ Rec[l].ev = e /\ l' = l + 1

TReset == /\ IsEvent("reset")
          /\ inst' = Rec[l].inst /\ cell' = NewCell(Rec[l].inst) /\ hist' = <<>> /\ pending' = {}
          /\ qphase' = "run"
TRec == /\ IsEvent("rec")
        /\ Record(Rec[l].n, Rec[l].k)
        /\ hist'[Len(hist')].deps = ToDeps(Rec[l].deps)
TPend == /\ IsEvent("pend")
         /\ TakePending
         /\ pending' = ToDeps(Rec[l].pending)

TNext == TReset \/ TRec \/ TPend
TSpec == TInit /\ [][TNext]_tvars

Accepted == LET n == TLCGet("stats").diameter - 1 IN
            IF n = Len(Rec) THEN TRUE ELSE Print(<<"REJECTED_AT", n + 1, Rec[n + 1]>>, FALSE)
=============================================================================
