SPECIFICATION TSpec
CONSTANT Strict = FALSE
CONSTANT RawPrint = FALSE
CONSTANT SwapPasses = FALSE
CONSTANT NoBackslashEsc = FALSE
INVARIANT RoundTrip
INVARIANT NeverEof
INVARIANT ScanAgrees
POSTCONDITION Accepted
CHECK_DEADLOCK FALSE
