-------------------------- MODULE CalibrationTrace --------------------------
(* Trace validation for Calibration: events recorded from the real Calibrations object
   (harness/src/props/c16.rs, drive) on insert histories and alphabets larger than the exhaustive bound.

     reset  {kind}                                     a new history ("gate" | "meas")
     insert {def, replaced, gtags, mtags}              insert_calibration / insert_measurement_calibration:
                                                       the definition (tagged), the tag of the definition
                                                       it replaced (0 = appended) and the set order after it
     match  {query, chosen, expanded, gtags, mtags}    get_match_for_gate / get_match_for_measurement and
                                                       Program::expand_calibrations on the one-instruction body

   Every demand below is part of the property statement (replace in place; which definition is chosen),
   so both events are verdict events.  The lookup is validated by running the module's own scan loop
   to completion (Strict) and by the declarative rules (always).                                        *)
EXTENDS Calibration, Json, IOUtils
CONSTANT Strict

Rec == ndJsonDeserialize(IOEnv.TRACE)
VARIABLE l
tvars == <<vars, l>>

TInit == l = 1 /\ InitWith("gate")
IsEvent(e) == l <= Len(Rec) /\ Rec[l].ev = e /\ l' = l + 1

TReset == /\ IsEvent("reset")
          /\ kind' = Rec[l].kind /\ hist' = <<>> /\ set' = <<>> /\ query' = NoQuery
          /\ i' = 0 /\ cur' = 0 /\ exact' = 0 /\ wild' = 0 /\ phase' = "build"

TagsOfKind(s, kd) == IF kind = kd THEN Tags(s) ELSE <<>>

TInsert == /\ IsEvent("insert")
           /\ Insert(Rec[l].def)
           \* replaced in place / appended, as the statement demands (declaratively, from the history)
           /\ set' = SetOfHistory(hist')
           /\ TagsOfKind(set', "gate") = Rec[l].gtags /\ TagsOfKind(set', "meas") = Rec[l].mtags
           /\ Rec[l].replaced = (IF \E n \in DOMAIN set : Sig(set[n]) = Sig(Rec[l].def)
                                 THEN set[CHOOSE n \in DOMAIN set : Sig(set[n]) = Sig(Rec[l].def)].tag ELSE 0)

\* the module's loop, run to completion on the current set (a pure function of set and query)
RECURSIVE GateLoop(_, _, _, _), MeasLoop(_, _, _, _, _)
GateLoop(s, g, n, c) ==
  IF n > Len(s) THEN c
  ELSE GateLoop(s, g, n + 1, IF Matches(s[n], g) /\ (c = 0 \/ FixedCount(s[n]) >= FixedCount(s[c])) THEN n ELSE c)
MeasLoop(s, m, n, e, w) ==
  IF n = 0 THEN (IF e # 0 THEN e ELSE w)
  ELSE MeasLoop(s, m, n - 1, IF e = 0 /\ MExact(s[n], m) THEN n ELSE e, IF w = 0 /\ MWild(s[n], m) THEN n ELSE w)

TagAt(n) == IF n = 0 THEN 0 ELSE set[n].tag

TMatch == /\ IsEvent("match")
          /\ phase = "build"
          /\ LET q == Rec[l].query
                 best == IF kind = "gate" THEN BestMatch(set, q) ELSE MeasBest(set, q) IN
             /\ Rec[l].chosen = TagAt(best)            \* the public getter
             /\ Rec[l].expanded = TagAt(best)          \* Program::expand_calibrations
             /\ Strict => TagAt(IF kind = "gate" THEN GateLoop(set, q, 1, 0) ELSE MeasLoop(set, q, Len(set), 0, 0))
                            = Rec[l].chosen
          /\ TagsOfKind(set, "gate") = Rec[l].gtags /\ TagsOfKind(set, "meas") = Rec[l].mtags
          /\ UNCHANGED vars

TNext == TReset \/ TInsert \/ TMatch
TSpec == TInit /\ [][TNext]_tvars

Accepted == LET n == TLCGet("stats").diameter - 1 IN
            IF n = Len(Rec) THEN TRUE ELSE Print(<<"REJECTED_AT", n + 1, Rec[n + 1]>>, FALSE)
=============================================================================
