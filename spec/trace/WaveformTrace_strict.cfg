SPECIFICATION TSpec
CONSTANT Strict = TRUE
INVARIANT TypeOK
INVARIANT LengthExact
INVARIANT ShapeRight
POSTCONDITION Accepted
CHECK_DEADLOCK FALSE
