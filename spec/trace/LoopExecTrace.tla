--------------------------- MODULE LoopExecTrace ---------------------------
(* code -> spec for C33: TLC executes what the real Program::wrap_in_loop returned.

   Every record of the trace (harness/src/props/c33.rs, drive) is one wrapped program:

     reset {n, cell, label, body, defs, wrapped, wdefs}
        n        iterations requested
        cell     index of the counter reference handed to wrap_in_loop (0, 1 or 2; its region is fresh)
        label    name of the start target handed in
        body     the original body, exported as abstract instructions (all Op(text))
        defs     the original program's definitions, in listing order: [key, text, sec]
        wrapped  the body of the returned program, exported as abstract instructions (LoopExec.tla)
        wdefs    the returned program's definitions
        decl     the declaration [key, text, sec] of the counter region that wrap_in_loop is expected to add (INTEGER[cell + 1])

   Unlike the other trace specifications this one does not walk the records in sequence: a record is a
   complete input of the interpreter, so each record is an *initial state* (l - 1 is its index, so that a
   state printed by TLC names the record the way bin/check expects) and TLC runs the interpreter from it
   as an ordinary state machine, checking the module's invariants in every state and <>halted under weak
   fairness.  A failing invariant or temporal property is the verdict; the records are independent
   histories ("reset" events), so the orchestrator cuts the offending one out and re-validates the rest.

   Checked on every recorded program (the property, C33):
     Terminates, StepBound, NotStuck       it stops
     ExactlyNTimes, InOrderSoFar           having executed the original body exactly n times, in order
     SmallNShape                           n = 1: unchanged; n = 0: body empty
     DefsKept                              every definition is preserved (for n >= 2 the counter's
                                           declaration is the only addition)
   Two configurations:
     LoopExecTrace_exec.cfg   (Strict = FALSE) the verdict: all of the above as INVARIANT / PROPERTY.
     LoopExecTrace_shape.cfg  (Strict = TRUE, no invariants) MODEL-DIVERGENCE only: the post-condition
                              demands that the recorded listing is literally the model's Wrap(...) and the
                              definitions literally WrapDefs(...), order included.
   They are separate runs so that a REJECTED_AT line of the shape comparison can never be mistaken for
   the record at which an invariant failed.                                                            *)
EXTENDS LoopExec, Json, IOUtils
CONSTANT Strict

Rec == ndJsonDeserialize(IOEnv.TRACE)
VARIABLE l
tvars == <<vars, l>>

R == Rec[l - 1]
TInit == /\ l \in 2..(Len(Rec) + 1)
         /\ Rec[l - 1].ev = "reset"
         /\ Load(Rec[l - 1].body, Rec[l - 1].n, Rec[l - 1].wrapped)
TNext == Exec /\ UNCHANGED l
TSpec == TInit /\ [][TNext]_tvars /\ WF_tvars(TNext)

\* definitions as sets (the statement does not order them)
DefsKeptOf(r) ==
   LET before == Range(r.defs)
       after  == Range(r.wdefs) IN
   IF r.n < 2 THEN after = before /\ Len(r.wdefs) = Len(r.defs)
   ELSE /\ {d \in before : d.key # r.decl.key} \subseteq after           \* nothing lost
        /\ \A d \in after \ before : d.key = r.decl.key                    \* only the counter may be added
        /\ Cardinality({d \in after : d.key = r.decl.key}) <= 1
        /\ Len(r.wdefs) = Cardinality(after)                               \* nothing listed twice
DefsKept == DefsKeptOf(R)

\* every record is an initial state; strict: and is the model's own construction
IdealOf(r) == /\ r.wrapped = Wrap(r.body, r.n, r.cell, r.label)
              /\ r.wdefs = WrapDefs(r.defs, r.n, r.decl)
Accepted ==
   /\ \A n \in DOMAIN Rec : Rec[n].ev = "reset" \/ Print(<<"REJECTED_AT", n, Rec[n]>>, FALSE)
   \* vacuity guard (a tool error, not a rejection of a record): every record gives >= 2 states
   /\ TLCGet("stats").generated >= 2 * Len(Rec) \/ Print(<<"NOT_ALL_EXECUTED", TLCGet("stats").generated, Len(Rec)>>, FALSE)
   /\ Strict => \A n \in DOMAIN Rec : IdealOf(Rec[n]) \/ Print(<<"REJECTED_AT", n, Rec[n]>>, FALSE)
=============================================================================
