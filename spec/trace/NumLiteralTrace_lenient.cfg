SPECIFICATION TSpec
CONSTANT Strict = FALSE
INVARIANT AccumulatorSane
POSTCONDITION Accepted
CHECK_DEADLOCK FALSE
