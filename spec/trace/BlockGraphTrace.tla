-------------------------- MODULE BlockGraphTrace --------------------------
(* Trace validation for BlockGraph: blocks scheduled by the real ScheduledProgram::from_program
   (harness/src/props/c22.rs, drive_blocks) are replayed against the module's actions.

     reset {instrs, term, uq, regions,     a new block: its instructions and terminator in abstract syntax, the
            frames, real, real_term}       program's used qubits and defined frames, and (real, real_term) the real
                                           handler's summary of every instruction
     step  {n, in}                          loop iteration n, with the real edges that enter node n
     term  {}                               the terminator's iteration
     done  {edges}                          the public result: all edges of the real graph

   Strict = TRUE : every event must be explained by Step / StepTerm / Finish with the recorded edges
                   (binding at loop-iteration granularity; the module's loop invariants are checked too).
   Strict = FALSE: step / term events are only consumed.
   The summaries the model works with - and hence the conflict relations of the verdict - are computed by the
   specification (Handler!Summary: MemAccess!Demanded, FrameMatch!UsedBy / BlockedBy) from the instructions; in
   strict mode the real handler's summaries must equal them (binding; a difference is a divergence of C26 / C27's
   concern, and the lenient run then still judges the graph against the specification's summaries).
   In both modes the `done` event is judged by the property predicates of the properties listed in
   Verdict, evaluated by TLC on the recorded real graph.                                               *)
EXTENDS BlockGraph, Handler, Json, IOUtils
CONSTANTS Strict, Verdict

Rec == ndJsonDeserialize(IOEnv.TRACE)
VARIABLE l
tvars == <<bvars, l>>

ToSum(j) == [role |-> j.role, timed |-> j.timed, r |-> Range(j.r), w |-> Range(j.w), c |-> Range(j.c),
             use |-> Range(j.use), blk |-> Range(j.blk)]
ToEdges(js) == {E(js[n].from, js[n].to, js[n].l) : n \in DOMAIN js}

TInit == l = 1 /\ RunInit(<<>>, <<>>, {}, {}) /\ phase = "done"
IsEvent(e) == l <= Len(Rec) /\ Rec[l].ev = e /\ l' = l + 1

SpecSums(is, F, qs) == [n \in DOMAIN is |-> Summary(is[n], F, qs)]
TReset == /\ IsEvent("reset")
          /\ prog' = SpecSums(Rec[l].instrs, Range(Rec[l].frames), Range(Rec[l].uq))
          /\ term' = SpecSums(Rec[l].term, Range(Rec[l].frames), Range(Rec[l].uq))
          /\ IF Strict THEN /\ prog' = [n \in DOMAIN Rec[l].real |-> ToSum(Rec[l].real[n])]
                            /\ term' = [n \in DOMAIN Rec[l].real_term |-> ToSum(Rec[l].real_term[n])]
                       ELSE TRUE
          /\ regions' = Range(Rec[l].regions) /\ frames' = Range(Rec[l].frames)
          /\ pc' = 1
          /\ mem' = [x \in Range(Rec[l].regions) |-> NewCell("mem")]
          /\ fr' = [f \in Range(Rec[l].frames) |-> NewCell("frame")]
          /\ tfr' = [f \in Range(Rec[l].frames) |-> NewCell("frame")]
          /\ trailing' = {} /\ edges' = {} /\ phase' = "run"

TStep == /\ IsEvent("step")
         /\ IF Strict
            THEN /\ Step /\ pc = Rec[l].n
                 /\ {e \in edges' : e.to = pc} = ToEdges(Rec[l].in)
            ELSE phase = "run" /\ UNCHANGED bvars

TTerm == /\ IsEvent("term")
         /\ IF Strict THEN StepTerm ELSE phase = "run" /\ UNCHANGED bvars

\* the properties, judged on the recorded real graph
VerdictOk(P, T, Es) ==
    /\ "C22" \in Verdict => (WellFormedOf(P, Es) /\ ForwardOf(Es) /\ ConnectedOf(P, Es))
    /\ "C23" \in Verdict => (ConflictsOrderedAnyOf(P, T, Es) /\ MemEdgesJustifiedOf(P, T, Es)
                             /\ NoMemEdgeWithoutConflictOf(P, T, Es))
    /\ "C24" \in Verdict => (FrameOrderedOf(P, Es) /\ FrameEdgesJustifiedOf(P, Es))

TDone == /\ IsEvent("done")
         /\ LET es == TLCEval(ToEdges(Rec[l].edges)) IN
            \* (compared with TRUE so that TLC evaluates the predicate as a value; as a bare conjunct of the action its
            \* disjunctions would be explored as alternative successor states)
            /\ VerdictOk(prog, term, es) = TRUE
            /\ IF Strict
               THEN Finish /\ edges' = es
               ELSE /\ phase = "run" /\ phase' = "done" /\ edges' = es
                    /\ UNCHANGED <<prog, term, regions, frames, pc, mem, fr, tfr, trailing>>

TNext == TReset \/ TStep \/ TTerm \/ TDone
TSpec == TInit /\ [][TNext]_tvars

Accepted == LET n == TLCGet("stats").diameter - 1 IN
            IF n = Len(Rec) THEN TRUE ELSE Print(<<"REJECTED_AT", n + 1, Rec[n + 1]>>, FALSE)
=============================================================================
