-------------------------- MODULE NumLiteralTrace --------------------------
(* Trace validation for NumLiteral: spellings drawn by the seeded driver (harness/src/props/c05.rs: long digit
   strings in every radix, many separators, exponent forms — far beyond the exhaustive bound) and what the real
   parser made of them in operand positions.

     reset   {chars}              a new history: the spelling
     char    {c}                  one LexChar step of the module's automaton (the character is an input, so the
                                  event only has to agree with the spelling)
     end     {sign}               LexEnd with the sign token written in front of the literal
     sane    {}                   (no data) the model's own invariants on the final automaton state
     opinion {pos, accepted}      did the real parser accept the text for this position?  (not a verdict: compared
                                  with the model parser only when Strict)
     parsed  {pos, res}           the operand the real parser produced: err | int{neg, mag digits} |
                                  real{neg, part, digits, e10} (shortest round-trip decimal of the f64) | other
                                  VERDICT: TLC recomputes the mathematical value of the spelling with the module's
                                  digit arithmetic and checks ValueAllowed (C05 itself) on the recorded operand.

   Reals are decided exactly when the spelling has at most 15 mantissa digits and lies well inside the normal
   range (then decimal -> double -> shortest decimal is the identity); other reals are judged by the replay
   direction only. *)
EXTENDS NumLiteral, Json, IOUtils
CONSTANT Strict

Rec == ndJsonDeserialize(IOEnv.TRACE)
VARIABLE l
tvars == <<vars, l>>

TInit == /\ l = 1 /\ chars = <<>> /\ sign = "" /\ phase = "done" /\ LexInit /\ budget = 0 /\ free = FALSE
IsEvent(e) == l <= Len(Rec) /\ Rec[l].ev = e /\ l' = l + 1

TReset == /\ IsEvent("reset")
          /\ chars' = Rec[l].chars /\ sign' = "" /\ phase' = "lex"
          /\ i' = 1 /\ st' = "start" /\ radix' = 10 /\ mant' = Zero /\ ndig' = 0 /\ nfrac' = 0
          /\ ipart' = Zero /\ eneg' = FALSE /\ eabs' = 0 /\ edig' = 0
          /\ UNCHANGED <<budget, free>>

TChar == /\ IsEvent("char")
         /\ IF i <= Len(chars) /\ st # "stop"
            THEN LexChar /\ chars[i] = Rec[l].c
            ELSE phase = "lex" /\ UNCHANGED vars

\* the model's own invariants are evaluated once per history, at the `sane` event that follows `end` (a failure here
\* is a defect of the model, not of the code: it surfaces as a rejection at a non-verdict event under Strict)
ModelSane == AutomatonGrammar /\ AutomatonExact /\ RejectOrExact
TEnd == IsEvent("end") /\ LexEnd(Rec[l].sign)
TSane == IsEvent("sane") /\ phase = "done" /\ (Strict => ModelSane) /\ UNCHANGED vars

TOpinion == /\ IsEvent("opinion") /\ phase = "done"
            /\ (Strict => ((Expected(PosDom[Rec[l].pos]).r # "reject") <=> Rec[l].accepted))
            /\ UNCHANGED vars

ImagPositions == {"IMAG"}
DecValue(ds) == Trim(PosValue(ds, 10))
Abs(n) == IF n < 0 THEN 0 - n ELSE n
\* m1 * 10^e1 = m2 * 10^e2 on exact naturals
SameDecimal(m1, e1, m2, e2) ==
  IF m1 = Zero \/ m2 = Zero THEN m1 = m2
  ELSE IF Abs(e1 - e2) > 60 THEN FALSE
  ELSE LET lo == IF e1 < e2 THEN e1 ELSE e2 IN TimesPow10(m1, e1 - lo) = TimesPow10(m2, e2 - lo)
Decidable(s) == LET m == MathMant(s) mag == NumDigits(m) + MathE10(s) IN
                NumDigits(m) <= 15 /\ (m = Zero \/ (mag > 0 - 290 /\ mag < 290))

ResOk(pos, res) ==
  LET dom == PosDom[pos] IN
  CASE res.t = "err" -> TRUE
    [] res.t = "int" ->
         LET m == DecValue(res.mag) IN
         ValueAllowed(dom, sign, chars, [r |-> "int", neg |-> IF m = Zero THEN sign = "-" ELSE res.neg, mag |-> m])
    [] res.t = "real" ->
         /\ (res.part = "im") = (pos \in ImagPositions /\ res.digits # <<>>)
         /\ IF Grammatical(chars) /\ Decidable(chars)
            THEN /\ SameDecimal(DecValue(res.digits), res.e10, MathMant(chars), MathE10(chars))
                 /\ ValueAllowed(dom, sign, chars, [r |-> "real", neg |-> res.neg, mant |-> MathMant(chars), e10 |-> MathE10(chars)])
            ELSE \* kind, sign and position rules still apply; the digits are left to the replay direction
                 ValueAllowed(dom, sign, chars, [r |-> "real", neg |-> res.neg, mant |-> MathMant(chars), e10 |-> MathE10(chars)])
    [] OTHER -> FALSE

TParsed == /\ IsEvent("parsed") /\ phase = "done"
           /\ ResOk(Rec[l].pos, Rec[l].res)
           /\ UNCHANGED vars

TNext == TReset \/ TChar \/ TEnd \/ TSane \/ TOpinion \/ TParsed
TSpec == TInit /\ [][TNext]_tvars

Accepted == LET n == TLCGet("stats").diameter - 1 IN
            IF n = Len(Rec) THEN TRUE ELSE Print(<<"REJECTED_AT", n + 1, Rec[n + 1]>>, FALSE)
=============================================================================
