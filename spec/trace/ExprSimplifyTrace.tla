------------------------ MODULE ExprSimplifyTrace ------------------------
(* Trace validation for ExprSimplify: the real simplifier is run on seeded random trees far beyond the
   exhaustive bound (harness/src/props/c12.rs, depth up to 6) and TLC judges the recorded results with
   the module's own contract.

     reset    {tree, exact, small}   a new history: the expression handed to into_simplified.
                                     exact: every literal of input and output is an exact rational and has
                                     been mapped into GF(1009) by the harness ("field" histories: variables,
                                     addresses, rationals, + - * /, prefixes); otherwise literals are decimal
                                     strings and only the name / never-pi part is judged here (the value is
                                     judged in floating point by the harness).
                                     small: depth <= 3, the model's own result is compared too (Strict).
     simplify {out}                  the expression returned
     done     {}                     verdict: ExprSimplify!Contract on (tree, recorded output)

   Strict = TRUE : for small exact histories the simplify event must be explained by the model: the recorded
                   output equals Simplify(tree).
   Strict = FALSE: simplify only records.                                                               *)
EXTENDS ExprSimplify, Json, IOUtils
CONSTANT Strict

Rec == ndJsonDeserialize(IOEnv.TRACE)
VARIABLES l,       \* next record
          exact,   \* recorded flag of the current history
          rout     \* recorded output
tvars == <<vars, l, exact, rout>>

TInit == l = 1 /\ Fresh(PiC) /\ exact = FALSE /\ rout = PiC
IsEvent(e) == l <= Len(Rec) /\ Rec[l].ev = e /\ l' = l + 1

TReset == /\ IsEvent("reset")
          /\ tree' = Rec[l].tree /\ phase' = "gen" /\ sl' = Rec[l].tree /\ sr' = Rec[l].tree /\ arm' = ""
          /\ out' = Rec[l].tree /\ exact' = Rec[l].exact /\ rout' = Rec[l].tree

TSimplify == /\ IsEvent("simplify")
             /\ phase = "gen" /\ phase' = "done"
             /\ rout' = Rec[l].out
             /\ IF Strict /\ Rec[l - 1].small
                THEN out' = Simplify(tree) /\ out' = Rec[l].out
                ELSE out' = Rec[l].out
             /\ UNCHANGED <<tree, sl, sr, arm, exact>>

\* the property, on the recorded real result
TDone == /\ IsEvent("done")
         /\ phase = "done"
         /\ NamesOk(tree, rout) /\ ~HasPi(rout)
         /\ exact => Sound(tree, rout)
         /\ UNCHANGED <<vars, exact, rout>>

TNext == TReset \/ TSimplify \/ TDone
TSpec == TInit /\ [][TNext]_tvars

Accepted == LET n == TLCGet("stats").diameter - 1 IN
            IF n = Len(Rec) THEN TRUE ELSE Print(<<"REJECTED_AT", n + 1, Rec[n + 1]>>, FALSE)
=============================================================================
