SPECIFICATION TSpec
CONSTANT Strict = FALSE
CONSTANT Judge = {"C11"}
CONSTANT Deviations = {}
POSTCONDITION Accepted
CHECK_DEADLOCK FALSE
