SPECIFICATION TSpec
INVARIANT DepsExact
INVARIANT PendingExact
INVARIANT CellExact
POSTCONDITION Accepted
CHECK_DEADLOCK FALSE
