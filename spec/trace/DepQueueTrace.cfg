SPECIFICATION TSpec
CONSTANT Strict = TRUE
INVARIANT DepsExact
INVARIANT PendingExact
INVARIANT CellExact
POSTCONDITION Accepted
CHECK_DEADLOCK FALSE
