SPECIFICATION TSpec
CONSTANT Strict = TRUE
CONSTANT Verdict = {"C22"}
INVARIANT MemCellsExact
INVARIANT FrameCellsExact
INVARIANT TrailingExact
POSTCONDITION Accepted
CHECK_DEADLOCK FALSE
