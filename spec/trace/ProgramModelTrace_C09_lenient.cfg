SPECIFICATION TSpec
CONSTANT Strict = FALSE
CONSTANT Judge = {"C09"}
CONSTANT Deviations = {}
INVARIANT BodyOrder
INVARIANT LastValueWins
INVARIANT NoDuplicateKeys
POSTCONDITION Accepted
CHECK_DEADLOCK FALSE
