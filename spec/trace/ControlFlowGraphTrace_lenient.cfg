SPECIFICATION TSpec
CONSTANT Strict = FALSE
CONSTANT LabelArmAlwaysAddsOne = FALSE
POSTCONDITION Accepted
CHECK_DEADLOCK FALSE
