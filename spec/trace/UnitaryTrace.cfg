SPECIFICATION TSpec
INVARIANT CurWellFormed
INVARIANT ProgDaggerShape
POSTCONDITION Accepted
CHECK_DEADLOCK FALSE
