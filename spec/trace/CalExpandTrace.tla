--------------------------- MODULE CalExpandTrace ---------------------------
(* Trace validation for CalExpand (C17 and C18): events recorded from the real expansion
   (harness/src/props/c17.rs, drive; hooks VerifEvent::CalExpandEnter / CalExpandRecursive /
   CalExpandMatched in Calibrations::expand_inner) on programs larger than the exhaustive bound.

     reset     {gcals, mcals, src, with_map}    a new history: the program handed to the real library
     enter     {instr, depth}                   expand_inner was called (depth = length of the breadcrumbs)
     recursive {instr, depth}                   ... found the instruction in its breadcrumbs
     matched   {instr, depth, body_len}         ... finished matching (-1: no calibration matches)
     done      {status, out, decls, depth}      the public result: "done" + expanded body + hoisted
                                                declarations, or "recursive"; depth = deepest nesting seen
     end       {}                               (no data) lets the step-level machine be compared with the
                                                recorded result outside the verdict event

   Strict = TRUE : enter / recursive / matched must each be explained by the machine's Call / Reject /
                   Match action (Return, Hoist, HoistEnd are silent and folded into the next event), and at
                   `end` the machine must have produced the recorded body.
   Strict = FALSE: step events are only consumed.
   Verdict (the `done` event, both modes), judged declaratively:
     Judge = "C17": the recorded body and declarations are ExpandFix of the program, a fixpoint,
                    declaration-free, unmatched instructions in order
     Judge = "C18": "recursive" iff a cycle is reachable in the expands-to graph                      *)
EXTENDS SourceMap, Json, IOUtils
CONSTANTS Strict, Judge

Rec == ndJsonDeserialize(IOEnv.TRACE)
VARIABLES l, last          \* last: the most recent `done` record (for `end`)
tvars == <<evars, l, last>>

NoDone == [status |-> "none"]
TInit == l = 1 /\ gc = <<>> /\ mc = <<>> /\ src = <<>> /\ withMap = FALSE /\ m = MInit /\ last = NoDone
IsEvent(e) == l <= Len(Rec) /\ Rec[l].ev = e /\ l' = l + 1

TReset == /\ IsEvent("reset")
          /\ gc' = Rec[l].gcals /\ mc' = Rec[l].mcals /\ src' = Rec[l].src /\ withMap' = Rec[l].with_map
          /\ m' = MInit /\ last' = NoDone

\* the silent actions, run until the next hook-observable step
RECURSIVE Settle(_)
Settle(mm) == IF CanReturn(mm) THEN Settle(DoReturn(mm))
              ELSE IF CanHoist(mm) THEN Settle(DoHoist(mm))
              ELSE IF CanHoistEnd(mm) THEN Settle(DoHoistEnd(mm))
              ELSE mm

TEnter == /\ IsEvent("enter")
          /\ IF Strict
             THEN LET s == Settle(m) IN
                  /\ CanCall(s) /\ m' = DoCall(s)
                  /\ m'.cur = Rec[l].instr /\ Len(m'.stack) = Rec[l].depth
             ELSE UNCHANGED m
          /\ UNCHANGED <<gc, mc, src, withMap, last>>

TRecursive == /\ IsEvent("recursive")
              /\ IF Strict
                 THEN CanReject(m) /\ m' = DoReject(m) /\ m.cur = Rec[l].instr /\ Len(m.stack) = Rec[l].depth
                 ELSE UNCHANGED m
              /\ UNCHANGED <<gc, mc, src, withMap, last>>

TMatched == /\ IsEvent("matched")
            /\ IF Strict
               THEN /\ CanMatch(m) /\ m' = DoMatch(m) /\ m.cur = Rec[l].instr /\ Len(m.stack) = Rec[l].depth
                    /\ IF Rec[l].body_len < 0 THEN Len(m'.stack) = Len(m.stack)
                       ELSE Len(m'.stack) = Len(m.stack) + 1 /\ Len(Top(m').body) = Rec[l].body_len
               ELSE UNCHANGED m
            /\ UNCHANGED <<gc, mc, src, withMap, last>>

DeclNames(ds) == {ds[n].name : n \in DOMAIN ds}

\* the property, on the recorded public result
JudgeC17(r) ==
  LET fix == ExpandFix(gc, mc, src) IN
  /\ r.status = "done" => /\ IsOk(fix)
                          /\ r.out = FixBody(fix)
                          /\ DeclNames(FixDecls(fix)) \subseteq Range(r.decls)
                          /\ \A n \in DOMAIN r.out : MatchIn(gc, mc, r.out[n]) = NoCal /\ ~Hoisted(r.out[n])
  /\ IsOk(fix) => r.status = "done"
JudgeC18(r) ==
  /\ r.status \in {"done", "recursive"}
  /\ (r.status = "recursive") <=> CycleReachable(gc, mc, src)

TDone == /\ IsEvent("done")
         /\ IF Judge = "C17" THEN JudgeC17(Rec[l]) ELSE JudgeC18(Rec[l])
         /\ last' = Rec[l]
         /\ UNCHANGED <<gc, mc, src, withMap, m>>

TEnd == /\ IsEvent("end")
        /\ IF Strict
           THEN LET s == Settle(m) IN
                IF last.status = "done"
                THEN /\ CanFinish(s) /\ m' = DoFinish(s)
                     /\ m'.out = last.out /\ m'.maxDepth = last.depth
                     /\ DeclNames(m'.decls) \subseteq Range(last.decls)
                ELSE m.status = "recursive" /\ last.status = "recursive" /\ m.maxDepth = last.depth /\ UNCHANGED m
           ELSE UNCHANGED m
        /\ UNCHANGED <<gc, mc, src, withMap, last>>

TNext == TReset \/ TEnter \/ TRecursive \/ TMatched \/ TDone \/ TEnd
TSpec == TInit /\ [][TNext]_tvars

Accepted == LET n == TLCGet("stats").diameter - 1 IN
            IF n = Len(Rec) THEN TRUE ELSE Print(<<"REJECTED_AT", n + 1, Rec[n + 1]>>, FALSE)
=============================================================================
