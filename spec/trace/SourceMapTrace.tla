--------------------------- MODULE SourceMapTrace ---------------------------
(* C19, judged by TLC on the artefact of the real code: each `map` record holds a program and what
   Program::expand_calibrations_with_source_map returned for it (harness/src/props/c19.rs, drive), for a
   sample of the programs TLC enumerated and for seeded random larger programs.

     reset {}
     map   {gcals, mcals, src, status, out, map, sources, targets, hoisting}
               out      the expanded body;  map  the entries tree (SourceMapAlgebra encoding, calibrations
                        named by kind and index);  sources[t+1] = list_sources(t) for every output index;
               targets[s+1] = list_targets(s) for every body index, each target as its span <<from, to>>
     cmp   {}  lets the model's own map be compared with the recorded one outside the verdict event

   Verdict (`map`): WellFormedExcept on the recorded (program, out, map) — order, tiling, nesting relative
   to the parent, identity of unmodified entries at every level, inverse queries — and the recorded
   answers of list_sources / list_targets are inverse to each other.  The nested records of expansions
   that hoisted a DECLARE are exempt (known finding calibration-source-map-declare-hoisting); which
   expansions those are is computed here from the program (HoistingSources), not taken from the record.

   `cmp` (strict only): the CalExpand machine, run to the end on the program with AsBuiltRemove as
   configured (TRUE in the shipped strict configuration: remove_target_index as the code has it), builds
   exactly the recorded map; and the recorded query answers are the ones the entries tree determines.   *)
EXTENDS SourceMap, Json, IOUtils
CONSTANT Strict

Rec == ndJsonDeserialize(IOEnv.TRACE)
VARIABLES l, cur
tvars == <<evars, l, cur>>

NoRec == [status |-> "none"]
TInit == l = 1 /\ gc = <<>> /\ mc = <<>> /\ src = <<>> /\ withMap = TRUE /\ m = MInit /\ cur = NoRec
IsEvent(e) == l <= Len(Rec) /\ Rec[l].ev = e /\ l' = l + 1

TReset == IsEvent("reset") /\ cur' = NoRec /\ UNCHANGED evars

\* the recorded query answers are inverse to each other
QueriesInverse(r) ==
  /\ Len(r.sources) = Len(r.out) /\ Len(r.targets) = Len(r.src)
  /\ \A t \in 0..(Len(r.out) - 1) :
       /\ Len(r.sources[t + 1]) = 1
       /\ LET s == r.sources[t + 1][1] IN
          s + 1 \in DOMAIN r.targets /\ \E n \in DOMAIN r.targets[s + 1] : r.targets[s + 1][n][1] <= t /\ t < r.targets[s + 1][n][2]
  /\ \A s \in 0..(Len(r.src) - 1) :
       /\ Len(r.targets[s + 1]) <= 1
       /\ \A n \in DOMAIN r.targets[s + 1] :
            \A t \in r.targets[s + 1][n][1]..(r.targets[s + 1][n][2] - 1) :
               t + 1 \in DOMAIN r.sources /\ r.sources[t + 1] = <<s>>

TMap == /\ IsEvent("map")
        /\ LET r == Rec[l] IN
           /\ r.status = "done" =>
                /\ WellFormedExcept(r.gcals, r.mcals, r.src, r.out, r.map, HoistingSources(r.gcals, r.mcals, r.src))
                /\ QueriesInverse(r)
           /\ gc' = r.gcals /\ mc' = r.mcals /\ src' = r.src /\ cur' = r
        /\ withMap' = TRUE /\ m' = MInit

\* the machine, run to the end (a pure function of the program)
RECURSIVE RunAll(_, _)
RunAll(mm, fuel) ==
  IF fuel = 0 THEN mm
  ELSE IF CanCall(mm) THEN RunAll(DoCall(mm), fuel - 1)
  ELSE IF CanReject(mm) THEN DoReject(mm)
  ELSE IF CanMatch(mm) THEN RunAll(DoMatch(mm), fuel - 1)
  ELSE IF CanReturn(mm) THEN RunAll(DoReturn(mm), fuel - 1)
  ELSE IF CanHoist(mm) THEN RunAll(DoHoist(mm), fuel - 1)
  ELSE IF CanHoistEnd(mm) THEN RunAll(DoHoistEnd(mm), fuel - 1)
  ELSE IF CanFinish(mm) THEN DoFinish(mm)
  ELSE mm

TCmp == /\ IsEvent("cmp")
        /\ IF Strict
           THEN LET f == RunAll(m, 100000) IN
                /\ m' = f
                /\ f.status = cur.status
                /\ cur.status = "done" =>
                     /\ f.out = cur.out /\ f.map = cur.map
                     /\ \A t \in 0..(Len(cur.out) - 1) : cur.sources[t + 1] = ListSources(cur.map, t)
                     /\ \A s \in 0..(Len(cur.src) - 1) : cur.targets[s + 1] = ListTargets(cur.map, s)
                     /\ cur.hoisting = SortedSeq(HoistingSources(gc, mc, src))
           ELSE UNCHANGED m
        /\ UNCHANGED <<gc, mc, src, withMap, cur>>

TNext == TReset \/ TMap \/ TCmp
TSpec == TInit /\ [][TNext]_tvars

Accepted == LET n == TLCGet("stats").diameter - 1 IN
            IF n = Len(Rec) THEN TRUE ELSE Print(<<"REJECTED_AT", n + 1, Rec[n + 1]>>, FALSE)
=============================================================================
