--------------------------- MODULE UnitaryTrace ---------------------------
(* Trace validation for Unitary: events recorded from the real code by harness/src/props/c14.rs and
   c15.rs are replayed against the builder machine of the module.

     reset      {n, thetas}                    a new history on an n-qubit register
     new        {name, qs, post, entries}      Gate::new(name, .., qs, [])
     dagger     {post, entries}                Gate::dagger
     controlled {q, post, entries}             Gate::controlled(q)
     forked     {q, post, entries}             Gate::forked(q, alt)
     append     {}                             Program::add_instruction(gate)
     pdagger    {gates}                        Program::dagger: the gate list of the real result

   `post` is the real Gate value after the call (name, modifiers, qubits, number of parameters) and
   `entries` the real matrix of Gate::to_unitary(n) on it, abstracted by the harness from numbers back
   to the symbols of the module ([[row, col, {s, p}]], zero entries omitted; a number that is no
   symbol's value arrives as {s: "?"} and can never match).  Each builder event must be explained by
   the module's action with that post-state, and the recorded matrix must be the specification's.   *)
EXTENDS Unitary, Json, IOUtils

Rec == ndJsonDeserialize(IOEnv.TRACE)
VARIABLE l
tvars == <<bvars, lvars, l>>

TInit == l = 1 /\ BIdle /\ LIdle
IsEvent(e) == l <= Len(Rec) /\ Rec[l].ev = e /\ l' = l + 1

AsGate(j) == GateRec(j.name, j.mods, j.qubits, j.np)
\* the real gate value is the model's, and the real matrix is the specification's
Observed(g) == /\ g = AsGate(Rec[l].post)
               /\ WellFormed(g)
               /\ LET G == U(g, n) IN Sparse(G) = Range(Rec[l].entries)

TReset == /\ IsEvent("reset")
          /\ n' = Rec[l].n /\ cur' = None /\ prog' = <<>>
TNew == IsEvent("new") /\ NewGate(Rec[l].name, Rec[l].qs) /\ Observed(cur'.some)
TDagger == IsEvent("dagger") /\ ApplyDagger /\ Observed(cur'.some)
TControlled == IsEvent("controlled") /\ ApplyControlled(Rec[l].q) /\ Observed(cur'.some)
TForked == IsEvent("forked") /\ ApplyForked(Rec[l].q) /\ Observed(cur'.some)
TAppend == IsEvent("append") /\ AppendGate
TPDagger == /\ IsEvent("pdagger")
            /\ DaggerProg(prog) = [j \in 1..Len(Rec[l].gates) |-> AsGate(Rec[l].gates[j])]
            /\ UNCHANGED bvars

TNext == (TReset \/ TNew \/ TDagger \/ TControlled \/ TForked \/ TAppend \/ TPDagger) /\ UNCHANGED lvars
TSpec == TInit /\ [][TNext]_tvars

Accepted == LET k == TLCGet("stats").diameter - 1 IN
            IF k = Len(Rec) THEN TRUE ELSE Print(<<"REJECTED_AT", k + 1, Rec[k + 1]>>, FALSE)
=============================================================================
