---- MODULE QuotedStringTrace_TTrace_1790049867 ----
EXTENDS Sequences, TLCExt, QuotedStringTrace, Toolbox, Naturals, TLC

_expression ==
    LET QuotedStringTrace_TEExpression == INSTANCE QuotedStringTrace_TEExpression
    IN QuotedStringTrace_TEExpression!expression
----

_trace ==
    LET QuotedStringTrace_TETrace == INSTANCE QuotedStringTrace_TETrace
    IN QuotedStringTrace_TETrace!trace
----

_inv ==
    ~(
        TLCGet("level") = Len(_TETrace)
        /\
        phase = ("closed")
        /\
        txt = (<<"\"", ";", "y", "\\", "\"", "\\", "\"", "B", ";", "\\", "\"", "\\", "\"", "u", "\\", "\\", "f", "f", "\\", "\\", "k", ";", "|", "L", "@", "d", "\n", "\\", "\"", " ", "|", "\\", "\\", "\\", "\\", "V", "\\", "\\", "_", " ", "\\", "\\", "@", "\\", "\\", "T", "\\", "\\", "\\", "\\", "\\", "\"", "\t", "\\", "\\", " ", "\"">>)
        /\
        rest = (<<>>)
        /\
        s = (<<";", "y", "\"", "\"", "B", ";", "\"", "\"", "u", "\\", "f", "f", "\\", "k", ";", "|", "L", "@", "d", "\n", "\"", " ", "|", "\\", "\\", "V", "\\", "_", " ", "\\", "@", "\\", "T", "\\", "\\", "\"", "\t", "\\", " ", "x">>)
        /\
        esc = (FALSE)
        /\
        pos = (57)
        /\
        l = (10)
    )
----

_init ==
    /\ phase = _TETrace[1].phase
    /\ txt = _TETrace[1].txt
    /\ l = _TETrace[1].l
    /\ s = _TETrace[1].s
    /\ pos = _TETrace[1].pos
    /\ rest = _TETrace[1].rest
    /\ esc = _TETrace[1].esc
----

_next ==
    /\ \E i,j \in DOMAIN _TETrace:
        /\ \/ /\ j = i + 1
              /\ i = TLCGet("level")
        /\ phase  = _TETrace[i].phase
        /\ phase' = _TETrace[j].phase
        /\ txt  = _TETrace[i].txt
        /\ txt' = _TETrace[j].txt
        /\ l  = _TETrace[i].l
        /\ l' = _TETrace[j].l
        /\ s  = _TETrace[i].s
        /\ s' = _TETrace[j].s
        /\ pos  = _TETrace[i].pos
        /\ pos' = _TETrace[j].pos
        /\ rest  = _TETrace[i].rest
        /\ rest' = _TETrace[j].rest
        /\ esc  = _TETrace[i].esc
        /\ esc' = _TETrace[j].esc

\* Uncomment the ASSUME below to write the states of the error trace
\* to the given file in Json format. Note that you can pass any tuple
\* to `JsonSerialize`. For example, a sub-sequence of _TETrace.
    \* ASSUME
    \*     LET J == INSTANCE Json
    \*         IN J!JsonSerialize("QuotedStringTrace_TTrace_1790049867.json", _TETrace)

=============================================================================

 Note that you can extract this module `QuotedStringTrace_TEExpression`
  to a dedicated file to reuse `expression` (the module in the 
  dedicated `QuotedStringTrace_TEExpression.tla` file takes precedence 
  over the module `QuotedStringTrace_TEExpression` below).

---- MODULE QuotedStringTrace_TEExpression ----
EXTENDS Sequences, TLCExt, QuotedStringTrace, Toolbox, Naturals, TLC

expression == 
    [
        \* To hide variables of the `QuotedStringTrace` spec from the error trace,
        \* remove the variables below.  The trace will be written in the order
        \* of the fields of this record.
        phase |-> phase
        ,txt |-> txt
        ,l |-> l
        ,s |-> s
        ,pos |-> pos
        ,rest |-> rest
        ,esc |-> esc
        
        \* Put additional constant-, state-, and action-level expressions here:
        \* ,_stateNumber |-> _TEPosition
        \* ,_phaseUnchanged |-> phase = phase'
        
        \* Format the `phase` variable as Json value.
        \* ,_phaseJson |->
        \*     LET J == INSTANCE Json
        \*     IN J!ToJson(phase)
        
        \* Lastly, you may build expressions over arbitrary sets of states by
        \* leveraging the _TETrace operator.  For example, this is how to
        \* count the number of times a spec variable changed up to the current
        \* state in the trace.
        \* ,_phaseModCount |->
        \*     LET F[s \in DOMAIN _TETrace] ==
        \*         IF s = 1 THEN 0
        \*         ELSE IF _TETrace[s].phase # _TETrace[s-1].phase
        \*             THEN 1 + F[s-1] ELSE F[s-1]
        \*     IN F[_TEPosition - 1]
    ]

=============================================================================



Parsing and semantic processing can take forever if the trace below is long.
 In this case, it is advised to uncomment the module below to deserialize the
 trace from a generated binary file.

\*
\*---- MODULE QuotedStringTrace_TETrace ----
\*EXTENDS IOUtils, QuotedStringTrace, TLC
\*
\*trace == IODeserialize("QuotedStringTrace_TTrace_1790049867.bin", TRUE)
\*
\*=============================================================================
\*

---- MODULE QuotedStringTrace_TETrace ----
EXTENDS QuotedStringTrace, TLC

trace == 
    <<
    ([phase |-> "gen",txt |-> <<"\"", "\"">>,rest |-> <<>>,s |-> <<>>,esc |-> FALSE,pos |-> 2,l |-> 1]),
    ([phase |-> "gen",txt |-> <<"\"", "\"">>,rest |-> <<>>,s |-> <<"Z", " ">>,esc |-> FALSE,pos |-> 2,l |-> 2]),
    ([phase |-> "gen",txt |-> <<"\"", "Z", " ", "\"">>,rest |-> <<>>,s |-> <<"Z", " ">>,esc |-> FALSE,pos |-> 2,l |-> 3]),
    ([phase |-> "closed",txt |-> <<"\"", "Z", " ", "\"">>,rest |-> <<>>,s |-> <<"Z", " ">>,esc |-> FALSE,pos |-> 4,l |-> 4]),
    ([phase |-> "closed",txt |-> <<"\"", "Z", " ", "\"", "\n", "X", " ", "0">>,rest |-> <<"\n", "X", " ", "0">>,s |-> <<"Z", " ">>,esc |-> FALSE,pos |-> 4,l |-> 5]),
    ([phase |-> "closed",txt |-> <<"\"", "Z", " ", "\"", " ", "\"", "b", "\"">>,rest |-> <<" ", "\"", "b", "\"">>,s |-> <<"Z", " ">>,esc |-> FALSE,pos |-> 4,l |-> 6]),
    ([phase |-> "closed",txt |-> <<"\"", "Z", " ", "\"", " ", "\"", "b", "\"">>,rest |-> <<" ", "\"", "b", "\"">>,s |-> <<"Z", " ">>,esc |-> FALSE,pos |-> 4,l |-> 7]),
    ([phase |-> "gen",txt |-> <<"\"", "\"">>,rest |-> <<>>,s |-> <<";", "y", "\"", "\"", "B", ";", "\"", "\"", "u", "\\", "f", "f", "\\", "k", ";", "|", "L", "@", "d", "\n", "\"", " ", "|", "\\", "\\", "V", "\\", "_", " ", "\\", "@", "\\", "T", "\\", "\\", "\"", "\t", "\\", " ", "x">>,esc |-> FALSE,pos |-> 2,l |-> 8]),
    ([phase |-> "gen",txt |-> <<"\"", ";", "y", "\\", "\"", "\\", "\"", "B", ";", "\\", "\"", "\\", "\"", "u", "\\", "\\", "f", "f", "\\", "\\", "k", ";", "|", "L", "@", "d", "\n", "\\", "\"", " ", "|", "\\", "\\", "\\", "\\", "V", "\\", "\\", "_", " ", "\\", "\\", "@", "\\", "\\", "T", "\\", "\\", "\\", "\\", "\\", "\"", "\t", "\\", "\\", " ", "\"">>,rest |-> <<>>,s |-> <<";", "y", "\"", "\"", "B", ";", "\"", "\"", "u", "\\", "f", "f", "\\", "k", ";", "|", "L", "@", "d", "\n", "\"", " ", "|", "\\", "\\", "V", "\\", "_", " ", "\\", "@", "\\", "T", "\\", "\\", "\"", "\t", "\\", " ", "x">>,esc |-> FALSE,pos |-> 2,l |-> 9]),
    ([phase |-> "closed",txt |-> <<"\"", ";", "y", "\\", "\"", "\\", "\"", "B", ";", "\\", "\"", "\\", "\"", "u", "\\", "\\", "f", "f", "\\", "\\", "k", ";", "|", "L", "@", "d", "\n", "\\", "\"", " ", "|", "\\", "\\", "\\", "\\", "V", "\\", "\\", "_", " ", "\\", "\\", "@", "\\", "\\", "T", "\\", "\\", "\\", "\\", "\\", "\"", "\t", "\\", "\\", " ", "\"">>,rest |-> <<>>,s |-> <<";", "y", "\"", "\"", "B", ";", "\"", "\"", "u", "\\", "f", "f", "\\", "k", ";", "|", "L", "@", "d", "\n", "\"", " ", "|", "\\", "\\", "V", "\\", "_", " ", "\\", "@", "\\", "T", "\\", "\\", "\"", "\t", "\\", " ", "x">>,esc |-> FALSE,pos |-> 57,l |-> 10])
    >>
----


=============================================================================

---- CONFIG QuotedStringTrace_TTrace_1790049867 ----
CONSTANTS
    Strict = FALSE
    RawPrint = FALSE
    SwapPasses = FALSE
    NoBackslashEsc = FALSE

INVARIANT
    _inv

CHECK_DEADLOCK
    \* CHECK_DEADLOCK off because of PROPERTY or INVARIANT above.
    FALSE

INIT
    _init

NEXT
    _next

CONSTANT
    _TETrace <- _trace

ALIAS
    _expression
=============================================================================
\* Generated on Tue Sep 22 04:04:35 UTC 2026