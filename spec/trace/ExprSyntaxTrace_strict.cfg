SPECIFICATION TSpec
CONSTANT Strict = TRUE
CONSTANT Deviations = {}
INVARIANT RoundTripParses
INVARIANT RoundTripValue
INVARIANT ReparseExact
INVARIANT NamesKept
INVARIANT ParsedNormal
POSTCONDITION Accepted
CHECK_DEADLOCK FALSE
