---------------------- MODULE ControlFlowGraphTrace ----------------------
(* Trace validation for ControlFlowGraph: events recorded from the real builder
   (harness/src/props/c28.rs, hook VerifEvent::CfgStep) are replayed against the module's actions.

     reset {body}                       a new history: the body handed to the real builder
     step  {instr, offset, nblocks,     one loop iteration (hook), with the post-state scalars
            open_label, nopen}
     done  {blocks, dynamic}            the public result

   Strict = TRUE : every step event must be explained by the model's Step action with the logged
                   post-state (binding at loop-iteration granularity).
   Strict = FALSE: step events are only consumed; the verdict is the property evaluated by TLC on the
                   recorded public result (body, blocks, dynamic).                                    *)
EXTENDS ControlFlowGraph, Json, IOUtils
CONSTANT Strict

Rec == ndJsonDeserialize(IOEnv.TRACE)
VARIABLE l
tvars == <<vars, l>>

TInit == l = 1 /\ RunInit(<<>>) /\ phase = "done"
IsEvent(e) == l <= Len(Rec) /\ Rec[l].ev = e /\ l' = l + 1

TReset == /\ IsEvent("reset")
          /\ body' = Rec[l].body /\ pc' = 1 /\ openLabel' = None /\ openInstrs' = <<>>
          /\ offset' = 0 /\ blocks' = <<>> /\ phase' = "run"

TStep == /\ IsEvent("step")
         /\ IF Strict
            THEN /\ Step
                 /\ body[pc] = Rec[l].instr
                 /\ offset' = Rec[l].offset /\ Len(blocks') = Rec[l].nblocks
                 /\ openLabel' = Rec[l].open_label /\ Len(openInstrs') = Rec[l].nopen
            ELSE /\ phase = "run" /\ UNCHANGED vars

\* the public result, judged by the property's own predicates on the recorded real blocks
ResultOk(b, bs, dyn) ==
    /\ PartitionOf(b, bs)
    /\ (DynamicOf(b) <=> dyn) /\ (HasDynamic(bs) <=> dyn)
    /\ ((\A n \in DOMAIN b : b[n].k # "Skipped") => OffsetExactOf(b, bs))

TDone == /\ IsEvent("done")
         /\ ResultOk(body, Rec[l].blocks, Rec[l].dynamic)
         /\ IF Strict
            THEN Flush /\ blocks' = Rec[l].blocks
            ELSE /\ phase = "run" /\ phase' = "done" /\ blocks' = Rec[l].blocks
                 /\ UNCHANGED <<body, pc, openLabel, openInstrs, offset>>

TNext == TReset \/ TStep \/ TDone
TSpec == TInit /\ [][TNext]_tvars

Accepted == LET n == TLCGet("stats").diameter - 1 IN
            IF n = Len(Rec) THEN TRUE ELSE Print(<<"REJECTED_AT", n + 1, Rec[n + 1]>>, FALSE)
=============================================================================
