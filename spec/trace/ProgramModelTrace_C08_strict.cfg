SPECIFICATION TSpec
CONSTANT Strict = TRUE
CONSTANT Judge = {"C08"}
CONSTANT Deviations = {}
INVARIANT FirstInsertionOrder
INVARIANT NoDuplicateKeys
INVARIANT LastValueWins
POSTCONDITION Accepted
CHECK_DEADLOCK FALSE
