SPECIFICATION TSpec
CONSTANT Strict = TRUE
CONSTANT MaxK = 4
CONSTANT StepwiseFold = FALSE
INVARIANT LoopEdges
POSTCONDITION Accepted
CHECK_DEADLOCK FALSE
