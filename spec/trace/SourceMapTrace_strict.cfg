SPECIFICATION TSpec
CONSTANT Strict = TRUE
CONSTANT MaxDepth = 40
CONSTANT AsBuiltRemove = TRUE
POSTCONDITION Accepted
CHECK_DEADLOCK FALSE
