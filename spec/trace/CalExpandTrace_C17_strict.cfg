SPECIFICATION TSpec
CONSTANT Strict = TRUE
CONSTANT Judge = "C17"
CONSTANT MaxDepth = 40
CONSTANT AsBuiltRemove = FALSE
POSTCONDITION Accepted
CHECK_DEADLOCK FALSE
