SPECIFICATION TSpec
CONSTANT Strict = TRUE
CONSTANT Judge = {"C09"}
CONSTANT Deviations = {}
INVARIANT BodyOrder
INVARIANT LastValueWins
INVARIANT NoDuplicateKeys
POSTCONDITION Accepted
CHECK_DEADLOCK FALSE
