SPECIFICATION TSpec
CONSTANT Strict = TRUE
CONSTANT Judge = {"C11"}
CONSTANT Deviations = {}
POSTCONDITION Accepted
CHECK_DEADLOCK FALSE
