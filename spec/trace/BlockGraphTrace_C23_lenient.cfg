SPECIFICATION TSpec
CONSTANT Strict = FALSE
CONSTANT Verdict = {"C23"}
POSTCONDITION Accepted
CHECK_DEADLOCK FALSE
