SPECIFICATION TSpec
CONSTANT Strict = TRUE
INVARIANT ReplaceInPlace
INVARIANT UniqueSignatures
POSTCONDITION Accepted
CHECK_DEADLOCK FALSE
