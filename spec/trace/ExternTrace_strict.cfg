SPECIFICATION TSpec
CONSTANT Strict = TRUE
POSTCONDITION Accepted
CHECK_DEADLOCK FALSE
