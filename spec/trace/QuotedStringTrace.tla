------------------------- MODULE QuotedStringTrace -------------------------
(* Trace validation for QuotedString: events recorded from the real printer and the real lexer
   (harness/src/props/c07.rs) are replayed against the module.

     reset   {s}                a new history: the string value (sequence of characters)
     printed {quoted}           the lexeme the real printer wrote for s
     lexed   {rest, ok, val}    the real lexer's value for the text  quoted \o rest
     done    {positions, failed} the harness' own round trip of s through every string-bearing position

   After a `lexed` event the module's variables describe the *real* printed text with the model lexer
   positioned at its closing quote, so the module's invariants RoundTrip / NeverEof / ScanAgrees are
   evaluated by TLC on real text: they are the verdict.
   Strict = TRUE additionally demands that the model explains the real printer (Escape(s) = quoted) and
   the real lexer (model value = recorded value) -- a mismatch there is a model divergence.          *)
EXTENDS QuotedString, Json, IOUtils
CONSTANT Strict

Rec == ndJsonDeserialize(IOEnv.TRACE)
VARIABLE l
tvars == <<vars, l>>

TInit == l = 1 /\ s = <<>> /\ rest = <<>> /\ txt = <<Q, Q>> /\ pos = 2 /\ esc = FALSE /\ phase = "gen" /\ printed = TRUE
IsEvent(e) == l <= Len(Rec) /\ Rec[l].ev = e /\ l' = l + 1

TReset == /\ IsEvent("reset")
          /\ s' = Rec[l].s /\ rest' = <<>> /\ txt' = <<Q, Q>> /\ pos' = 2 /\ esc' = FALSE /\ phase' = "gen"
          /\ UNCHANGED printed

TPrinted == /\ IsEvent("printed")
            /\ Strict => Escape(s) = Rec[l].quoted
            /\ txt' = Rec[l].quoted /\ phase' = "gen"
            /\ UNCHANGED <<s, rest, pos, esc, printed>>

\* the printed lexeme is what precedes the continuation in txt
Lexeme == SubSeq(txt, 1, Len(txt) - Len(rest))

TLexed == /\ IsEvent("lexed")
          /\ LET t == Lexeme \o Rec[l].rest
                 e == Scan(t, 2, FALSE) IN
               /\ txt' = t /\ rest' = Rec[l].rest /\ esc' = FALSE
               /\ pos' = IF e = 0 THEN Len(t) + 1 ELSE e
               /\ phase' = IF e = 0 THEN "eof" ELSE "closed"
               /\ Strict => /\ Rec[l].ok = (e # 0)
                            /\ e # 0 => Unescape(SubSeq(t, 2, e - 1)) = Rec[l].val
          /\ UNCHANGED <<s, printed>>

\* verdict of the harness' own round trips (property-level: every position returned s)
TDone == /\ IsEvent("done")
         /\ Rec[l].failed = 0
         /\ UNCHANGED vars

TNext == TReset \/ TPrinted \/ TLexed \/ TDone
TSpec == TInit /\ [][TNext]_tvars

Accepted == LET n == TLCGet("stats").diameter - 1 IN
            IF n = Len(Rec) THEN TRUE ELSE Print(<<"REJECTED_AT", n + 1, Rec[n + 1]>>, FALSE)
=============================================================================
