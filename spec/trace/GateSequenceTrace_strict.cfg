SPECIFICATION TSpec
CONSTANT Deviations = {}
CONSTANT Strict = TRUE
POSTCONDITION Accepted
CHECK_DEADLOCK FALSE
