SPECIFICATION TSpec
CONSTANT Strict = TRUE
CONSTANT Deviations = {}
CONSTRAINT StepBound
POSTCONDITION Accepted
CHECK_DEADLOCK FALSE
