SPECIFICATION TSpec
CONSTANT Fuel = 80
CONSTANT LabelArmAlwaysAddsOne = FALSE
POSTCONDITION Accepted
CHECK_DEADLOCK FALSE
