-------------------------- MODULE FrameMatchTrace --------------------------
(* Trace validation for FrameMatch: results of DefaultHandler::matching_frames recorded on seeded random
   (frame set, used qubits, instruction) triples larger than the exhaustive bound
   (harness/src/props/c26.rs, drive) are judged by the rules of property C26.

     reset {}                                        separates the records
     match {frames, uq, instr, res}                  res = {"some": {used, blocked}} | {"none": true}

   FrameMatch is a case analysis without state, so the only variable is the record counter; a record is accepted
   iff the recorded sets are what the rules demand (RuleOk) - and, as a cross-check of the model, what the
   condition-tree mechanism computes.                                                                      *)
EXTENDS FrameMatch, Json, IOUtils

Rec == ndJsonDeserialize(IOEnv.TRACE)
VARIABLE l

TInit == l = 1
IsEvent(e) == l <= Len(Rec) /\ Rec[l].ev = e /\ l' = l + 1
TReset == IsEvent("reset")
TMatch == /\ IsEvent("match")
          /\ LET i == Rec[l].instr  F == Range(Rec[l].frames)  qs == Range(Rec[l].uq)  res == Rec[l].res IN
             IF HasFrameSemantics(i)
             THEN /\ IsSome(res)
                  /\ RuleOk(i, F, qs, Range(res.some.used), Range(res.some.blocked)) = TRUE
                  /\ AgreesOn(i, F, qs) = TRUE
             ELSE IsNone(res)
TNext == TReset \/ TMatch
TSpec == TInit /\ [][TNext]_l

Accepted == LET n == TLCGet("stats").diameter - 1 IN
            IF n = Len(Rec) THEN TRUE ELSE Print(<<"REJECTED_AT", n + 1, Rec[n + 1]>>, FALSE)
=============================================================================
