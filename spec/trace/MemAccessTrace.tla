--------------------------- MODULE MemAccessTrace ---------------------------
(* Trace validation for MemAccess: results of DefaultHandler::memory_accesses recorded on seeded random
   instructions beyond the exhaustive alphabet (four regions, deeper expressions, signatures of up to four
   parameters; harness/src/props/c27.rs, drive) are judged by what property C27 demands (MemAccess!Demanded:
   derived semantics for classical instructions, the rule for the others).

     reset {}                          separates the records
     acc   {instr, sigs, res}          res = {reads, writes, captures}                                  *)
EXTENDS MemAccess, Json, IOUtils

Rec == ndJsonDeserialize(IOEnv.TRACE)
VARIABLE l

TInit == l = 1
IsEvent(e) == l <= Len(Rec) /\ Rec[l].ev = e /\ l' = l + 1
TReset == IsEvent("reset")
TAcc == /\ IsEvent("acc")
        /\ LET i == Rec[l].instr  sg == Rec[l].sigs  res == Rec[l].res IN
           /\ Acc(Range(res.reads), Range(res.writes), Range(res.captures)) = Demanded(i, sg)
           /\ Reported(i, sg) = Demanded(i, sg)
TNext == TReset \/ TAcc
TSpec == TInit /\ [][TNext]_l

Accepted == LET n == TLCGet("stats").diameter - 1 IN
            IF n = Len(Rec) THEN TRUE ELSE Print(<<"REJECTED_AT", n + 1, Rec[n + 1]>>, FALSE)
=============================================================================
