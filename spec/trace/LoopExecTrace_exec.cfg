SPECIFICATION TSpec
CONSTANT Strict = FALSE
CONSTANT Deviations = {}
INVARIANT ExactlyNTimes
INVARIANT InOrderSoFar
INVARIANT NotStuck
INVARIANT StepBound
INVARIANT SmallNShape
INVARIANT DefsKept
PROPERTY Terminates
POSTCONDITION Accepted
CHECK_DEADLOCK FALSE
