SPECIFICATION TSpec
CONSTANT Strict = TRUE
CONSTANT Deviations = {}
CONSTANT NEnvs = 3
POSTCONDITION Accepted
CHECK_DEADLOCK FALSE
