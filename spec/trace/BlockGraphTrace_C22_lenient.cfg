SPECIFICATION TSpec
CONSTANT Strict = FALSE
CONSTANT Verdict = {"C22"}
POSTCONDITION Accepted
CHECK_DEADLOCK FALSE
