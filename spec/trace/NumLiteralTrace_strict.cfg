SPECIFICATION TSpec
CONSTANT Strict = TRUE
INVARIANT AccumulatorSane
POSTCONDITION Accepted
CHECK_DEADLOCK FALSE
