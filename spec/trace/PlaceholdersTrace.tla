-------------------------- MODULE PlaceholdersTrace --------------------------
(* Trace validation for Placeholders: runs of the real resolution on bodies larger than the exhaustive
   bound (harness/src/props/c34.rs, drive) are judged by TLC with the module's definitions.

     reset     {body, mode, tmap, qmap}  a new history: the body, "default" | "custom", and (custom) the
                                         partial maps the custom resolvers implement, as [id, v] pairs
     tresolver {map}                     what Program::default_target_resolver() answers for every label
                                         placeholder of the body ([id, v] pairs; asked in both modes)
     qresolver {map}                     the same for Program::default_qubit_resolver()
     resolved  {result}                  the body after resolve_placeholders[_with_custom_resolvers]

   `resolved` is the verdict event: the recorded result must satisfy the statement - DefaultOk(body, result)
   resp. ExactlyTheReturnedOnes(body, result, tmap, qmap) - whatever values were chosen.
   Strict = TRUE additionally demands that the two default resolvers are exactly the maps the model's loops
   build (DefaultTMap, DefaultQMap: names base_k with the smallest free k, smallest free indices in order
   of first occurrence) and that the result is literally the model's (binding of the transcription;
   MODEL-DIVERGENCE only).                                                                            *)
EXTENDS Placeholders, Json, IOUtils
CONSTANT Strict

Rec == ndJsonDeserialize(IOEnv.TRACE)
VARIABLE l
tvars == <<vars, l>>

FromPairs(ps) == [x \in {ps[m].id : m \in DOMAIN ps} |-> ps[CHOOSE m \in DOMAIN ps : ps[m].id = x].v]

TInit == l = 1 /\ RunInit(<<>>, "default", EmptyFn, EmptyFn) /\ phase = "done"
IsEvent(e) == l <= Len(Rec) /\ Rec[l].ev = e /\ l' = l + 1

TReset == /\ IsEvent("reset")
          /\ Rec[l].mode \in {"default", "custom"}
          /\ body' = Rec[l].body /\ mode' = Rec[l].mode
          /\ tmap' = (IF Rec[l].mode = "custom" THEN FromPairs(Rec[l].tmap) ELSE DefaultTMap(Rec[l].body))
          /\ qmap' = (IF Rec[l].mode = "custom" THEN FromPairs(Rec[l].qmap) ELSE DefaultQMap(Rec[l].body))
          /\ phase' = "resolve" /\ pc' = 1 /\ result' = <<>>
          /\ fixedLabels' = {} /\ labelPhs' = <<>> /\ usedQ' = {} /\ qubitPhs' = <<>> /\ cursor' = 0

\* the four events of a history come in this order; pc (unused otherwise here) counts them
Stage(n) == /\ phase = "resolve" /\ pc = n /\ pc' = n + 1
            /\ UNCHANGED <<body, mode, phase, fixedLabels, labelPhs, tmap, usedQ, qubitPhs, cursor, qmap, result>>
TTResolver == /\ IsEvent("tresolver") /\ Stage(1)
              /\ Strict => FromPairs(Rec[l].map) = DefaultTMap(body)
TQResolver == /\ IsEvent("qresolver") /\ Stage(2)
              /\ Strict => FromPairs(Rec[l].map) = DefaultQMap(body)

TResolved == /\ IsEvent("resolved") /\ phase = "resolve" /\ pc = 3
             /\ LET r == Rec[l].result IN
                /\ IF mode = "default" THEN DefaultOk(body, r)                          \* C34
                                       ELSE ExactlyTheReturnedOnes(body, r, tmap, qmap)
                /\ Strict => r = ResolveAll(tmap, qmap, body)
                /\ result' = r
             /\ phase' = "done" /\ pc' = Len(body) + 1
             /\ UNCHANGED <<body, mode, fixedLabels, labelPhs, tmap, usedQ, qubitPhs, cursor, qmap>>

TNext == TReset \/ TTResolver \/ TQResolver \/ TResolved
TSpec == TInit /\ [][TNext]_tvars

Accepted == LET n == TLCGet("stats").diameter - 1 IN
            IF n = Len(Rec) THEN TRUE ELSE Print(<<"REJECTED_AT", n + 1, Rec[n + 1]>>, FALSE)
=============================================================================
