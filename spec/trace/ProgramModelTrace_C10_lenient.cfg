SPECIFICATION TSpec
CONSTANT Strict = FALSE
CONSTANT Judge = {"C10"}
CONSTANT Deviations = {}
INVARIANT UsedExact
INVARIANT EqByContent
POSTCONDITION Accepted
CHECK_DEADLOCK FALSE
