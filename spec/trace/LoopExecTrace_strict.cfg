SPECIFICATION TSpec
CONSTANT Strict = TRUE
CONSTANT Deviations = {}
INVARIANT ExactlyNTimes
INVARIANT InOrderSoFar
INVARIANT NotStuck
INVARIANT StepBound
INVARIANT SmallNShape
INVARIANT DefsKept
PROPERTY Terminates
POSTCONDITION Accepted
CHECK_DEADLOCK FALSE
