SPECIFICATION TSpec
CONSTANT Strict = TRUE
CONSTANT Verdict = {"C24"}
INVARIANT MemCellsExact
INVARIANT FrameCellsExact
INVARIANT TrailingExact
POSTCONDITION Accepted
CHECK_DEADLOCK FALSE
