SPECIFICATION TSpec
CONSTANT Strict = TRUE
CONSTANT Deviations = {}
INVARIANT Requirements
POSTCONDITION Accepted
CHECK_DEADLOCK FALSE
