SPECIFICATION TSpec
CONSTANT Strict = FALSE
CONSTANT Deviations = {}
CONSTANT NEnvs = 3
POSTCONDITION Accepted
CHECK_DEADLOCK FALSE
