--------------------------- MODULE SimplifyTrace ---------------------------
(* Trace validation for Simplify: events recorded from the real Program::simplify on random programs
   (harness/src/props/c35.rs, drive).

     reset {prog}                  a new history: the abstract program (tables + body) before the call
     out   {q, ncals}              the abstract simplified program
     sched {block, a, b, a2, b2}   block schedule of the calibration-expanded program (a) and of the simplified
                                   program (b) from ScheduledBasicBlock::as_schedule_seconds, (a2, b2) from
                                   BasicBlock::as_schedule_seconds; None = Err
     check {}                      verdict: KeepsExactlyOf(prog, q) and all recorded schedule pairs equal

   Strict = TRUE : `out` must equal SimplifyF(prog) and every `sched` must equal the model's block schedule
                   (differences there are divergences: exact order of tables, Ok/Err of a schedule);
   the verdict event only evaluates the property's own predicates on the recorded real values.            *)
EXTENDS Simplify, Json, IOUtils
CONSTANT Strict

Rec == ndJsonDeserialize(IOEnv.TRACE)
VARIABLES l, same
tvars == <<svars, l, same>>

Empty == [ft |-> <<>>, wfs |-> <<>>, exts |-> <<>>, cals |-> <<>>, other |-> <<>>, body |-> <<>>]
TInit == l = 1 /\ SInit(Empty) /\ sphase = "done" /\ same = TRUE
IsEvent(e) == l <= Len(Rec) /\ Rec[l].ev = e /\ l' = l + 1

TReset == /\ IsEvent("reset")
          /\ prog' = Rec[l].prog /\ out' = Rec[l].prog /\ sphase' = "run" /\ same' = TRUE
          /\ UNCHANGED <<bpc, spos, fu, wu, eu>>

TOut == /\ IsEvent("out") /\ sphase = "run"
        /\ out' = Rec[l].q
        /\ Strict => Rec[l].q = SimplifyF(prog)
        /\ sphase' = "out" /\ UNCHANGED <<prog, bpc, spos, fu, wu, eu, same>>

SchedOfRec(x) == IF IsNone(x) THEN None ELSE Some([items |-> Range(x.some.items), total |-> x.some.total])

TSched == /\ IsEvent("sched") /\ sphase = "out"
          /\ LET r == Rec[l]
                 m == SchedulesOf(prog.ft, prog.wfs, ExpandBody(prog.cals, prog.body))
             IN /\ Strict => /\ r.block \in DOMAIN m
                             /\ SchedOfRec(r.a) = m[r.block] /\ SchedOfRec(r.b) = m[r.block]
                /\ same' = (same /\ r.a = r.b /\ r.a2 = r.b2)
          /\ UNCHANGED <<prog, out, bpc, spos, fu, wu, eu, sphase>>

TCheck == /\ IsEvent("check") /\ sphase = "out"
          /\ KeepsExactlyOf(prog, out)
          /\ same
          /\ sphase' = "done" /\ UNCHANGED <<prog, out, bpc, spos, fu, wu, eu, same>>

TNext == TReset \/ TOut \/ TSched \/ TCheck
TSpec == TInit /\ [][TNext]_tvars

Accepted == LET n == TLCGet("stats").diameter - 1 IN
            IF n = Len(Rec) THEN TRUE ELSE Print(<<"REJECTED_AT", n + 1, Rec[n + 1]>>, FALSE)
=============================================================================
