\* lenient partner of LoopExecTrace_shape.cfg: only checks that every record loads and runs
\* (the verdict on the records is the 'execute' step with LoopExecTrace_exec.cfg)
SPECIFICATION TSpec
CONSTANT Strict = FALSE
CONSTANT Deviations = {}
CONSTRAINT StepBound
POSTCONDITION Accepted
CHECK_DEADLOCK FALSE
