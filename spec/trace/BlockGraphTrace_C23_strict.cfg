SPECIFICATION TSpec
CONSTANT Strict = TRUE
CONSTANT Verdict = {"C23"}
INVARIANT MemCellsExact
INVARIANT FrameCellsExact
INVARIANT TrailingExact
POSTCONDITION Accepted
CHECK_DEADLOCK FALSE
