SPECIFICATION TSpec
CONSTANT Strict = FALSE
CONSTANT Deviations = {}
INVARIANT Requirements
POSTCONDITION Accepted
CHECK_DEADLOCK FALSE
