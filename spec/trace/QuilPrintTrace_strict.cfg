SPECIFICATION TSpec
CONSTANT Strict = TRUE
CONSTANT MagTable <- NoMags
CONSTANT CallImmediatePlain = FALSE
CONSTANT JudgeAmbiguousDelay = FALSE
POSTCONDITION Accepted
CHECK_DEADLOCK FALSE
