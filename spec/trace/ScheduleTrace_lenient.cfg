SPECIFICATION TSpec
CONSTANT Strict = FALSE
CONSTANT AnyTopo = TRUE
POSTCONDITION Accepted
CHECK_DEADLOCK FALSE
