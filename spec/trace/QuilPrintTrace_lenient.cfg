SPECIFICATION TSpec
CONSTANT Strict = FALSE
CONSTANT MagTable <- NoMags
CONSTANT CallImmediatePlain = FALSE
CONSTANT JudgeAmbiguousDelay = FALSE
POSTCONDITION Accepted
CHECK_DEADLOCK FALSE
