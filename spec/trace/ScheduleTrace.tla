--------------------------- MODULE ScheduleTrace ---------------------------
(* Trace validation for Schedule: events recorded from the real scheduler (harness/src/props/c25.rs, drive).

     reset {frames, wfs, src : [{text, exp : [structured instruction]}],     a new history: the source block with
            real_frames : [{use, blk}], edges : [[i, j]], real_ok}           the REAL expansion of every source
                                                                             instruction, the real handler's frame
                                                                             sets, the real Scheduled edges
     item  {index, start, dur}      one iteration of the real scheduling loop (items in the order pushed)
     done  {ok, total}              result of ScheduledBasicBlock::as_schedule_seconds on the expanded block
     spans {ok, sdur, spans}        result of BasicBlock::as_schedule_seconds on the source block

   The summaries (frames used/blocked, durations) are computed here, by the module's own rules, from the
   structured instructions.

   Strict = TRUE : reset must agree with the model on the frame sets, the Scheduled edges and Ok/Err (these are
                   other properties' observables: a rejection there is a divergence), every item event must be a
                   SchedStep of the model for the recorded node.
   Strict = FALSE: items are only accumulated.
   In both modes `done` and `spans` carry the verdict: the property's predicates (Part 3 of Schedule) evaluated
   by TLC on the recorded real items, edges and spans.                                                         *)
EXTENDS Schedule, Json, IOUtils
CONSTANT Strict

Rec == ndJsonDeserialize(IOEnv.TRACE)
VARIABLES l, redges, rok
tvars == <<vars, l, redges, rok>>

TInit == l = 1 /\ RunInit(<<>>, 0) /\ phase = "done" /\ redges = {} /\ rok = FALSE
IsEvent(e) == l <= Len(Rec) /\ Rec[l].ev = e /\ l' = l + 1

SrcOf(r) == [n \in DOMAIN r.src |->
               [text |-> r.src[n].text,
                exp |-> [m \in DOMAIN r.src[n].exp |-> Summ(r.frames, r.wfs, r.src[n].exp[m])]]]
EdgeSet(r) == {<<r.edges[n][1], r.edges[n][2]>> : n \in DOMAIN r.edges}

TReset ==
  /\ IsEvent("reset")
  /\ LET r == Rec[l]
         s == SrcOf(r)
         x == ExpandAll(s, 1, <<>>, {})
         okm == Schedulable(x.flat)
     IN /\ src' = s /\ nframes' = Len(r.frames) /\ flat' = x.flat /\ mapping' = x.mapping
        /\ edges' = IF okm THEN EdgesOf(x.flat, Len(r.frames)) ELSE {}
        /\ err' = ~okm /\ redges' = EdgeSet(r)
        /\ Strict => /\ okm = r.real_ok
                     /\ \A j \in DOMAIN x.flat : IsSome(x.flat[j].dur) =>      \* (frames of untimed instructions never matter)
                                                   /\ x.flat[j].use = Range(r.real_frames[j].use)
                                                   /\ x.flat[j].blk = Range(r.real_frames[j].blk)
                     /\ okm => EdgeSet(r) = {e \in edges' : e[1] # START}
  /\ items' = <<>> /\ total' = 0 /\ spans' = {} /\ sdur' = 0 /\ phase' = "sched" /\ rok' = FALSE
  /\ UNCHANGED <<spc, pc, cells, ipc>>

TItem ==
  /\ IsEvent("item") /\ phase = "sched"
  /\ LET r == Rec[l] IN
     /\ Strict => /\ ~err /\ r.index \in DOMAIN flat
                  /\ ReadyNode(edges, items, r.index)
                  /\ r.start = StartFrom(edges, items, r.index)
                  /\ Some(r.dur) = flat[r.index].dur
     /\ items' = Append(items, [index |-> r.index, start |-> r.start, dur |-> r.dur])
     /\ total' = IF total < r.start + r.dur THEN r.start + r.dur ELSE total
  /\ UNCHANGED <<src, nframes, spc, flat, mapping, pc, cells, edges, ipc, spans, sdur, err, phase, redges, rok>>

\* the statement's "starts when its last timed predecessor ends (or at 0)", on the recorded real graph
AsapGraphOf(es, its, p) == \A j \in DOMAIN p : St(its, j) = StartFrom(es, its, j)

TDone ==
  /\ IsEvent("done") /\ phase = "sched"
  /\ LET r == Rec[l] IN
     /\ (r.ok /\ ~err) =>            \* computable, and every instruction has a documented duration
           /\ EachOnceOf(flat, items)
           /\ DocumentedOf(flat, items)
           /\ AsapGraphOf(redges, items, flat)
           /\ FrameExclusiveOf(flat, items)
           /\ DurationIsMaxEndOf(items, r.total)
     /\ rok' = (r.ok /\ ~err)
  /\ phase' = "map"
  /\ UNCHANGED <<src, nframes, spc, flat, mapping, pc, cells, edges, items, total, ipc, spans, sdur, err, redges>>

SpanSet(r) == {[src |-> r.spans[n].src, start |-> r.spans[n].start, dur |-> r.spans[n].dur] : n \in DOMAIN r.spans}

TSpans ==
  /\ IsEvent("spans") /\ phase = "map"
  /\ LET r == Rec[l] IN
     /\ (r.ok /\ rok) =>
           /\ Cardinality(SpanSet(r)) = Len(r.spans)
           /\ SpansCoverOf(src, items, SpanSet(r))
           /\ r.sdur = Max({0} \cup {x.start + x.dur : x \in SpanSet(r)})
           /\ SpanSet(r) = MapAll(items, 1, mapping, {})        \* implied by SpansCoverOf; the algorithm agrees
     /\ spans' = (IF r.ok THEN SpanSet(r) ELSE {})
     /\ sdur' = r.sdur
  /\ phase' = "done"
  /\ UNCHANGED <<src, nframes, spc, flat, mapping, pc, cells, edges, items, total, ipc, err, redges, rok>>

TNext == TReset \/ TItem \/ TDone \/ TSpans
TSpec == TInit /\ [][TNext]_tvars

Accepted == LET n == TLCGet("stats").diameter - 1 IN
            IF n = Len(Rec) THEN TRUE ELSE Print(<<"REJECTED_AT", n + 1, Rec[n + 1]>>, FALSE)
=============================================================================
