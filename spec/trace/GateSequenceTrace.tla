------------------------ MODULE GateSequenceTrace ------------------------
(* Trace validation for GateSequence: results recorded from the real entry points
   (harness/src/props/c20.rs, c21.rs) are judged by TLC with the module's own definitions.

     reset  {defs, filter, body}          a new history: the program handed to the real code
     result {res}                         Program::expand_defgate_sequences(filter):
                                          res = [ok: [out, kept]] | [err: kind]              (C20 verdict)
     map    {res, same}                   Program::expand_defgate_sequences_with_source_map(filter):
                                          res = [ok: [out, kept, map]] | [err: kind];
                                          same = the two entry points returned equal programs (C21 verdict)
     info   {res[, sources]}              the same result once more, with the definition names recovered
                                          from Debug and the answers of SourceMap::list_sources for
                                          every target index (diagnostic; only looked at when Strict)

   The expander has no verif hook, so there are no per-iteration events: a history is one call.  The
   verdict events carry only what the statements name; TLC evaluates on them
     result: out = the declarative expansion ExpD, kept = KeepD (as a set, no duplicates), error reported
             iff ExpD meets an offending invocation and its category is one of the Conditions there;
     map   : the two programs equal, WFMap on the real (body, out, map).
   Strict = TRUE additionally demands, on the info events (MODEL-DIVERGENCE level), the exact error
   category of the machine's check order (FirstErr), the kept keys in table order, the names recorded in
   the map and the list_sources answers.                                                               *)
EXTENDS GateSequence, Json, IOUtils
CONSTANT Strict

Rec == ndJsonDeserialize(IOEnv.TRACE)
VARIABLE l
tvars == <<vars, l>>

\* the module's machine variables carry the current input; the machine itself is not stepped here.
\* `phase` tracks the protocol of a history: reset ("fresh") -> result | map ("judged") -> [info ("closed")],
\* so that a missing or repeated record is rejected.
TInit == /\ l = 1 /\ defs = <<>> /\ filter = {} /\ body = <<>> /\ phase = "closed"
         /\ ksrc = <<>> /\ kreach = {} /\ kept = None /\ frames = <<>> /\ estack = <<>> /\ result = None
IsEvent(e) == l <= Len(Rec) /\ Rec[l].ev = e /\ l' = l + 1
Keep == UNCHANGED <<defs, filter, body, ksrc, kreach, kept, frames, estack, result>>

TReset == /\ IsEvent("reset") /\ phase \in {"judged", "closed"} /\ phase' = "fresh"
          /\ defs' = Rec[l].defs /\ filter' = Range(Rec[l].filter) /\ body' = Rec[l].body
          /\ UNCHANGED <<ksrc, kreach, kept, frames, estack, result>>

\* the first error in the machine's check order, by a direct recursion (Strict only)
RECURSIVE FirstErr(_, _)
FirstErr(instrs, stack) ==
  IF instrs = <<>> THEN None
  ELSE LET g == Head(instrs) IN
       IF ~Selected(defs, filter, g) THEN FirstErr(Tail(instrs), stack)
       ELSE LET e == CheckErr(Def(defs, g.name), g, stack) IN
            IF IsSome(e) THEN e
            ELSE LET inner == FirstErr(Instantiate(Def(defs, g.name), g), Append(stack, g.name)) IN
                 IF IsSome(inner) THEN inner ELSE FirstErr(Tail(instrs), stack)

NoDup(s) == \A m, n \in DOMAIN s : m # n => s[m] # s[n]

\* C20 on a recorded result
ResultOk(res) ==
  IF IsOk(res)
  THEN /\ IsOk(Want) /\ res.ok.out = Want.ok
       /\ Range(res.ok.kept) = KeepDFast(defs, filter) /\ NoDup(res.ok.kept)
  ELSE /\ IsErr(Want) /\ res.err \in Want.err

TResult == /\ IsEvent("result") /\ phase = "fresh" /\ phase' = "judged" /\ ResultOk(Rec[l].res) /\ Keep

\* C21 on a recorded result of the source-map entry point
MapOk(res, same) ==
  /\ same
  /\ IsOk(res) => WFMap(defs, filter, body, res.ok.out, res.ok.map, {})

TMap == /\ IsEvent("map") /\ phase = "fresh" /\ phase' = "judged" /\ MapOk(Rec[l].res, Rec[l].same) /\ Keep

\* beyond the statements (Strict only)
InfoOk(r) ==
  /\ IsOk(r.res) => /\ r.res.ok.kept = InOrder(defs, KeepDFast(defs, filter))
                    /\ ("map" \in DOMAIN r.res.ok =>
                          /\ MapNamesOk(defs, body, r.res.ok.map)
                          /\ \A n \in DOMAIN r.sources : r.sources[n] = ListSources(r.res.ok.map, n - 1))
  /\ IsErr(r.res) => Some(r.res.err) = FirstErr(body, <<>>)

TInfo == /\ IsEvent("info") /\ phase = "judged" /\ phase' = "closed" /\ (Strict => InfoOk(Rec[l])) /\ Keep

TNext == TReset \/ TResult \/ TMap \/ TInfo
TSpec == TInit /\ [][TNext]_tvars

Accepted == LET n == TLCGet("stats").diameter - 1 IN
            IF n = Len(Rec) THEN TRUE ELSE Print(<<"REJECTED_AT", n + 1, Rec[n + 1]>>, FALSE)
=============================================================================
