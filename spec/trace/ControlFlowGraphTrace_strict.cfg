SPECIFICATION TSpec
CONSTANT Strict = TRUE
CONSTANT LabelArmAlwaysAddsOne = FALSE
INVARIANT Consumed
POSTCONDITION Accepted
CHECK_DEADLOCK FALSE
