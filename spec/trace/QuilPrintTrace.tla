--------------------------- MODULE QuilPrintTrace ---------------------------
(* Trace validation for QuilPrint: recorded runs of the real parser / printer (harness/src/props/c02.rs,
   c04.rs) are replayed against the module's printer and judged by the properties' own predicates.

   C02 histories (a text the real parser accepted):
     reset   {fam: "text", src}          the source text
     parsed  {listing}                   Program::from_str(src).to_instructions(), abstracted (c02::to_abs)
     printed {t1}                        Program::to_quil()
     done    {reparsed, equal, same}     from_str(t1) succeeded / == P / second serialization == t1
   C04 histories (a value built through the constructors):
     reset    {fam: "value", v}          the value, abstracted
     vprinted {ok, text}                 to_quil() succeeded, its text
     vdone    {fails, parsed, equivalent} outcome of the round trip (equivalence judged by the harness by value)

   Strict = TRUE : the model printer must reproduce the real text from the recorded listing / value
                   (binding code -> spec at the level of every instruction's printed form).
   Verdict events (both modes): `done` demands reparsed /\ equal /\ same; `vdone` demands that serialization
   fails exactly when the model finds a placeholder in the recorded value, and that placeholder-free values
   outside the two known families round-trip.                                                             *)
EXTENDS QuilPrint, Json, IOUtils
CONSTANT Strict

NoMags == {}
Rec == ndJsonDeserialize(IOEnv.TRACE)
VARIABLES l, fam, cur       \* cur: the recorded listing (C02) or <<value>> (C04)
tvars == <<l, fam, cur>>

TInit == l = 1 /\ fam = "none" /\ cur = <<>>
IsEvent(e) == l <= Len(Rec) /\ Rec[l].ev = e /\ l' = l + 1

TReset == /\ IsEvent("reset")
          /\ fam' = Rec[l].fam
          /\ cur' = IF Rec[l].fam = "value" THEN <<Rec[l].v>> ELSE <<>>

TParsed == /\ IsEvent("parsed") /\ fam = "text"
           /\ cur' = Rec[l].listing /\ UNCHANGED fam
           /\ Strict => Listing(Rec[l].listing) = Rec[l].listing       \* a listing is a fixpoint of the routing

TPrinted == /\ IsEvent("printed") /\ fam = "text"
            /\ Strict => Text(PrintProgram(cur)) = Rec[l].t1
            /\ UNCHANGED <<fam, cur>>

TDone == /\ IsEvent("done") /\ fam = "text"
         /\ Rec[l].reparsed /\ Rec[l].equal /\ Rec[l].same
         /\ UNCHANGED <<fam, cur>>

TVPrinted == /\ IsEvent("vprinted") /\ fam = "value"
             /\ Strict => /\ Rec[l].ok = ~ToQuilFails(cur[1])
                          /\ Rec[l].ok => Text(PrintI(cur[1])) = Rec[l].text
                          /\ Rec[l].ok => LexStable(PrintI(cur[1]))
             /\ UNCHANGED <<fam, cur>>

TVDone == /\ IsEvent("vdone") /\ fam = "value"
          /\ Rec[l].fails = HasPh(cur[1])
          /\ (~HasPh(cur[1]) /\ ~KnownNotToRoundTrip(cur[1])) => (Rec[l].parsed /\ Rec[l].equivalent)
          /\ UNCHANGED <<fam, cur>>

\* C06 histories are C02 histories of a text written with one name in several places, plus
\*   named {name, written, got}   got: the names of the parsed program equal to `name` up to letter case
\* verdict: each written occurrence arrives, and arrives byte-for-byte
TNamed == /\ IsEvent("named") /\ fam = "text"
          /\ Len(Rec[l].got) = Rec[l].written
          /\ \A n \in DOMAIN Rec[l].got : Rec[l].got[n] = Rec[l].name
          /\ UNCHANGED <<fam, cur>>

TNext == TReset \/ TParsed \/ TPrinted \/ TDone \/ TVPrinted \/ TVDone \/ TNamed
TSpec == TInit /\ [][TNext]_tvars

Accepted == LET n == TLCGet("stats").diameter - 1 IN
            IF n = Len(Rec) THEN TRUE ELSE Print(<<"REJECTED_AT", n + 1, Rec[n + 1]>>, FALSE)
=============================================================================
