SPECIFICATION TSpec
CONSTANT Strict = TRUE
CONSTANT AnyTopo = TRUE
POSTCONDITION Accepted
CHECK_DEADLOCK FALSE
