SPECIFICATION TSpec
CONSTANT Strict = TRUE
CONSTANT RawPrint = FALSE
CONSTANT SwapPasses = FALSE
CONSTANT NoBackslashEsc = FALSE
INVARIANT RoundTrip
INVARIANT NeverEof
INVARIANT ScanAgrees
POSTCONDITION Accepted
CHECK_DEADLOCK FALSE
