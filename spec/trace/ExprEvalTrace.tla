-------------------------- MODULE ExprEvalTrace --------------------------
(* Trace validation for ExprEval: the real code is run on seeded random trees far beyond the exhaustive bound
   (harness/src/props/c13.rs, depth up to 6, full literal alphabet, three variables, three regions) and the
   recorded results are judged with the module's own definitions.

     reset {tree}                          a new history
     refs  {refs}                          the sequence yielded by Expression::memory_references
     subst {sigma:[{v, e}], out}           substitute_variables(sigma) and its result
     eval  {sdom, vdom, mem:[{name,len}],  one partial assignment: sdom substituted by numbers, vdom bound,
            ok_direct, ok_subst}           region lengths; did evaluate(e, sdom+vdom) / evaluate(subst(e), vdom)
                                           succeed
     done  {evals}                         verdict: the statement on what was recorded (evals = number of
                                           eval events of the history; the order reset, refs, subst, eval*,
                                           done is enforced, so a missing record is noticed)

   Strict = TRUE : refs must be exactly MemRefs(tree) (order included), the substituted tree exactly
                   Subst(tree, sigma), and the model's Eval must be defined exactly when the code's was.
   Strict = FALSE: the events only record.  The verdict at `done` is the statement itself: the listed
                   references are, as a bag, the addresses occurring in the tree; at every recorded
                   assignment evaluation succeeded iff everything was supplied, on both paths.            *)
EXTENDS ExprEval, Json, IOUtils
CONSTANT Strict

Rec == ndJsonDeserialize(IOEnv.TRACE)
VARIABLES l,        \* next record
          rrefs,    \* recorded memory references
          evalsok,  \* every recorded assignment so far satisfied the statement
          stage,    \* "reset" | "refs" | "subst": the last non-eval record consumed
          nevals    \* eval records consumed in this history
tvars == <<vars, l, rrefs, evalsok, stage, nevals>>

TInit == l = 1 /\ Fresh(PiC) /\ rrefs = <<>> /\ evalsok = TRUE /\ stage = "none" /\ nevals = 0
IsEvent(e) == l <= Len(Rec) /\ Rec[l].ev = e /\ l' = l + 1

TReset == /\ IsEvent("reset")
          /\ tree' = Rec[l].tree /\ phase' = "gen" /\ stack' = <<>> /\ cur' = None /\ outs' = <<>>
          /\ rrefs' = <<>> /\ evalsok' = TRUE /\ stage' = "reset" /\ nevals' = 0

TRefs == /\ IsEvent("refs") /\ stage = "reset" /\ stage' = "refs"
         /\ rrefs' = Rec[l].refs
         /\ Strict => Rec[l].refs = MemRefs(tree)
         /\ UNCHANGED <<vars, evalsok, nevals>>

SigmaOf(list) == [v \in {list[k].v : k \in DOMAIN list} |-> (CHOOSE k \in DOMAIN list : list[k].v = v)]
TSubst == /\ IsEvent("subst") /\ stage = "refs" /\ stage' = "subst"
          /\ Strict => LET list == Rec[l].sigma
                           idx  == SigmaOf(list)
                           sigma == [v \in DOMAIN idx |-> list[idx[v]].e]
                       IN Rec[l].out = Subst(tree, sigma)
          /\ UNCHANGED <<vars, rrefs, evalsok, nevals>>

ShapeOf(list) == [r \in {list[k].name : k \in DOMAIN list} |->
                    list[CHOOSE k \in DOMAIN list : list[k].name = r].len]
TEval == /\ IsEvent("eval") /\ stage = "subst" /\ nevals' = nevals + 1
         /\ LET bound == Range(Rec[l].sdom) \cup Range(Rec[l].vdom)
                shape == ShapeOf(Rec[l].mem)
                want  == Supplied(tree, bound, shape)
            IN /\ evalsok' = (evalsok /\ (Rec[l].ok_direct <=> want) /\ (Rec[l].ok_subst <=> want))
               /\ Strict => ((Eval(tree, [v \in bound |-> 7], [r \in DOMAIN shape |-> [k \in 1..shape[r] |-> 7]])
                                # Incomplete) <=> Rec[l].ok_direct)
         /\ UNCHANGED <<vars, rrefs, stage>>

\* the statement, on the recorded real results
TDone == /\ IsEvent("done") /\ stage = "subst" /\ nevals = Rec[l].evals
         /\ evalsok
         /\ SameBag(rrefs, MemRefs(tree)) /\ Range(rrefs) = AddrsOf(tree)
         /\ stage' = "none" /\ UNCHANGED <<vars, rrefs, evalsok, nevals>>

TNext == TReset \/ TRefs \/ TSubst \/ TEval \/ TDone
TSpec == TInit /\ [][TNext]_tvars

Accepted == LET n == TLCGet("stats").diameter - 1 IN
            IF n = Len(Rec) THEN TRUE ELSE Print(<<"REJECTED_AT", n + 1, Rec[n + 1]>>, FALSE)
=============================================================================
