SPECIFICATION TSpec
CONSTANT Strict = FALSE
INVARIANT TypeOK
INVARIANT LengthExact
INVARIANT ShapeRight
POSTCONDITION Accepted
CHECK_DEADLOCK FALSE
