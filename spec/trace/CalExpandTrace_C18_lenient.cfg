SPECIFICATION TSpec
CONSTANT Strict = FALSE
CONSTANT Judge = "C18"
CONSTANT MaxDepth = 40
CONSTANT AsBuiltRemove = FALSE
POSTCONDITION Accepted
CHECK_DEADLOCK FALSE
