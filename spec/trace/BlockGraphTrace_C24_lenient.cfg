SPECIFICATION TSpec
CONSTANT Strict = FALSE
CONSTANT Verdict = {"C24"}
POSTCONDITION Accepted
CHECK_DEADLOCK FALSE
