----------------------------- MODULE BlockGraph -----------------------------
(***************************************************************************)
(* The dependency-graph builder of quil-rs' scheduler:                     *)
(*   ScheduledBasicBlock::build                                            *)
(*   (quil-rs/src/program/scheduling/graph.rs)                             *)
(*                                                                         *)
(* `Step` is one iteration of the loop over the block's instructions,      *)
(* `StepTerm` the iteration for the block terminator (whose node is the    *)
(* block end), `Finish` the three closing loops and the empty-block edge.  *)
(* The variables are the loop's locals: one DependencyQueue cell per       *)
(* memory region (pending_memory_access), per frame                        *)
(* (last_instruction_by_frame) and per frame for timed instructions        *)
(* (last_timed_instruction_by_frame), the set of trailing classical        *)
(* instructions, and the graph's edges.                                    *)
(*                                                                         *)
(* The builder looks at an instruction only through its handler: role,     *)
(* is_scheduled, memory_accesses, matching_frames.  An instruction is      *)
(* therefore an *access summary*                                           *)
(*   [role  : "C" | "RF" | "CF" | "PC",   ClassicalCompute, RFControl,     *)
(*                                        ControlFlow, ProgramComposition  *)
(*    timed : BOOLEAN,                    is_scheduled                     *)
(*    r, w, c : sets of region names,     reads, writes, captures          *)
(*    use, blk : sets of frames]          matched_frames.used / .blocked   *)
(* (frames are opaque values).  Summaries of concrete instructions are     *)
(* produced by MemAccess and FrameMatch (see MC_BlockGraph).               *)
(*                                                                         *)
(* Nodes: START = 0, instruction k = k (1-based), END = 1000.              *)
(* Edge: [from, to, l] with l \in {"Read","Write","Capture"} for           *)
(* AwaitMemoryAccess(l), "Stable" = StableOrdering, "Sched" = Scheduled.   *)
(* (The code keeps a set of labels per node pair; a set of labelled edges  *)
(* is the same information.)                                               *)
(***************************************************************************)
EXTENDS DepQueue

VARIABLES prog,      \* the block's instructions (sequence of summaries)
          term,      \* the block terminator as instruction: sequence of 0 or 1 summaries
          regions,   \* region names that may occur (domain of mem)
          frames,    \* frames that may occur (domain of fr / tfr)
          pc,        \* loop position: 1..Len(prog) instructions, Len(prog)+1 the terminator
          mem,       \* pending_memory_access
          fr,        \* last_instruction_by_frame
          tfr,       \* last_timed_instruction_by_frame
          trailing,  \* trailing_classical_instructions
          edges,     \* the graph
          phase      \* "gen" | "run" | "done" | "err"
bvars == <<prog, term, regions, frames, pc, mem, fr, tfr, trailing, edges, phase>>

E(from, to, l) == [from |-> from, to |-> to, l |-> l]
MemLabels == {"Read", "Write", "Capture"}

RunInit(p, t, R, F) ==
    /\ prog = p /\ term = t /\ regions = R /\ frames = F /\ pc = 1
    /\ mem = [x \in R |-> NewCell("mem")]
    /\ fr = [f \in F |-> NewCell("frame")] /\ tfr = [f \in F |-> NewCell("frame")]
    /\ trailing = {} /\ edges = {}

\* the accesses one instruction makes to one cell, in the order of the code: reads, writes, captures
MemKindsOn(s, x) == (IF x \in s.r THEN <<"Read">> ELSE <<>>) \o (IF x \in s.w THEN <<"Write">> ELSE <<>>)
                    \o (IF x \in s.c THEN <<"Capture">> ELSE <<>>)
\* used frames first, then blocked ones
FrKindsOn(s, f) == (IF f \in s.use THEN <<"Using">> ELSE <<>>) \o (IF f \in s.blk THEN <<"Blocking">> ELSE <<>>)

\* the common part of one loop iteration, for node `node` with summary s
Iteration(node, s) ==
    LET mrun == [x \in regions |-> RunCell("mem", mem[x], node, MemKindsOn(s, x), {})]
        \* "Test to make sure that no instructions depend directly on themselves"
        md   == {d \in UNION {mrun[x].deps : x \in regions} : d.n # node}
        frun == [f \in frames |-> RunCell("frame", fr[f], node, FrKindsOn(s, f), {})]
        trun == [f \in frames |-> RunCell("frame", tfr[f], node, FrKindsOn(s, f), {})]
        fdeps == UNION {frun[f].deps : f \in frames}
        tdeps == UNION {trun[f].deps : f \in frames}
        touched(f) == f \in s.use \cup s.blk
    IN
    /\ mem' = [x \in regions |-> IF MemKindsOn(s, x) = <<>> THEN mem[x] ELSE mrun[x].cell]
    /\ edges' = edges
         \cup {E(d.n, node, d.t) : d \in md}
         \cup (IF s.role = "C" /\ md = {} THEN {E(START, node, "Stable")} ELSE {})
         \cup (IF s.role = "RF" THEN {E(d.n, node, "Stable") : d \in fdeps} ELSE {})
         \cup (IF s.role = "RF" /\ s.timed THEN {E(d.n, node, "Sched") : d \in tdeps} ELSE {})
    /\ trailing' = (trailing \ {d.n : d \in md}) \cup (IF s.role = "C" THEN {node} ELSE {})
    /\ fr' = [f \in frames |-> IF s.role = "RF" /\ touched(f) THEN frun[f].cell ELSE fr[f]]
    /\ tfr' = [f \in frames |-> IF s.role = "RF" /\ s.timed /\ touched(f) THEN trun[f].cell ELSE tfr[f]]

\* an instruction the builder refuses: control flow inside the block, or a ProgramComposition instruction
Refused(node, s) == (s.role = "CF" /\ node # END) \/ s.role = "PC"

Step ==
    /\ phase = "run" /\ pc <= Len(prog)
    /\ Iteration(pc, prog[pc])
    /\ phase' = IF Refused(pc, prog[pc]) THEN "err" ELSE "run"
    /\ pc' = pc + 1 /\ UNCHANGED <<prog, term, regions, frames>>

StepTerm ==
    /\ phase = "run" /\ pc = Len(prog) + 1 /\ term # <<>>
    /\ Iteration(END, term[1])
    /\ phase' = IF Refused(END, term[1]) THEN "err" ELSE "run"
    /\ pc' = pc + 1 /\ UNCHANGED <<prog, term, regions, frames>>

Finish ==
    /\ phase = "run" /\ pc = Len(prog) + Len(term) + 1
    /\ edges' = edges
         \cup {E(n, END, "Stable") : n \in trailing}
         \cup {E(d.n, END, "Sched") : d \in UNION {PendingOf("frame", tfr[f]) : f \in frames}}
         \cup {E(d.n, END, "Stable") : d \in UNION {PendingOf("frame", fr[f]) : f \in frames}}
         \cup (IF prog = <<>> THEN {E(START, END, "Stable")} ELSE {})
    /\ phase' = "done"
    /\ UNCHANGED <<prog, term, regions, frames, pc, mem, fr, tfr, trailing>>

----------------------------------------------------------------------------
\* The properties, stated on (P, T, Es) = (instruction summaries, terminator, edge set) without the loop.
\* The terminator takes part as the node END.

Nodes(P, T)   == (1..Len(P)) \cup (IF T = <<>> THEN {} ELSE {END})
Sum(P, T, n)  == IF n = END THEN T[1] ELSE P[n]
Succ(S, Es)   == {e.to : e \in {e \in Es : e.from \in S}}
Pred(S, Es)   == {e.from : e \in {e \in Es : e.to \in S}}
RECURSIVE FwdReach(_, _, _)
FwdReach(S, Es, k) == IF k = 0 THEN S ELSE LET T == S \cup Succ(S, Es) IN IF T = S THEN S ELSE FwdReach(T, Es, k - 1)
RECURSIVE BwdReach(_, _, _)
BwdReach(S, Es, k) == IF k = 0 THEN S ELSE LET T == S \cup Pred(S, Es) IN IF T = S THEN S ELSE BwdReach(T, Es, k - 1)

\* ---- C22 ----
\* every edge points from an earlier position to a later one: START, instructions in order, END
WellFormedOf(P, Es) == \A e \in Es : /\ e.from \in {START} \cup (1..Len(P))
                                     /\ e.to \in (1..Len(P)) \cup {END}
ForwardOf(Es) == \A e \in Es : e.from < e.to
AllMatchedOf(P) == \A i \in 1..Len(P) : P[i].role = "RF" => P[i].use \cup P[i].blk # {}
ConnectedOf(P, Esx) ==
    LET Es == TLCEval(Esx) IN
    AllMatchedOf(P) =>
        /\ (1..Len(P)) \subseteq FwdReach({START}, Es, Len(P) + 2)
        /\ (1..Len(P)) \subseteq BwdReach({END}, Es, Len(P) + 2)

\* ---- C23 ----
TouchesR(s, x) == x \in s.r \cup s.w \cup s.c
WritesR(s, x)  == x \in s.w \cup s.c
MemConflict(a, b) == \E x \in a.r \cup a.w \cup a.c : TouchesR(b, x) /\ (WritesR(a, x) \/ WritesR(b, x))
MemEdges(Es) == {e \in Es : e.l \in MemLabels}
\* OrderedThrough: every conflicting pair i < j is ordered through the edges Ds
OrderedThrough(P, T, Dsx) ==
    LET Ds == TLCEval(Dsx) IN      \* (TLCEval: evaluate the edge set once, not at every use)
    \A i \in Nodes(P, T) :
        LET later == {j \in Nodes(P, T) : i < j /\ MemConflict(Sum(P, T, i), Sum(P, T, j))} IN
        later # {} => later \subseteq FwdReach({i}, Ds, Len(P) + 2)
\* in the model: already through the memory edges alone (what the queue construction guarantees) ...
ConflictsOrderedOf(P, T, Es) == OrderedThrough(P, T, MemEdges(Es))
\* ... the statement itself only asks for a dependency path of any kind (used to judge real graphs)
ConflictsOrderedAnyOf(P, T, Es) == OrderedThrough(P, T, Es)
\* an edge AwaitMemoryAccess(t) from a to b: on some region, a performs an access of type t and b conflicts
\* with it (a read is only awaited by a write or capture)
MemEdgeJustified(a, b, t) ==
    \/ t = "Read"    /\ \E x \in a.r : WritesR(b, x)
    \/ t = "Write"   /\ \E x \in a.w : TouchesR(b, x)
    \/ t = "Capture" /\ \E x \in a.c : TouchesR(b, x)
MemEdgesJustifiedOf(P, T, Es) ==
    \A e \in MemEdges(Es) : /\ e.from \in Nodes(P, T) /\ e.to \in Nodes(P, T)
                            /\ MemEdgeJustified(Sum(P, T, e.from), Sum(P, T, e.to), e.l)
\* clause (a) of "reads are not ordered": instructions that conflict on no region have no direct memory edge
NoMemEdgeWithoutConflictOf(P, T, Es) ==
    \A e \in MemEdges(Es) : (e.from \in Nodes(P, T) /\ e.to \in Nodes(P, T))
                               => MemConflict(Sum(P, T, e.from), Sum(P, T, e.to))

\* ---- C24 ----
IsRF(P, i) == P[i].role = "RF"
FrConflict(a, b) == \/ a.use \cap (b.use \cup b.blk) # {}
                    \/ b.use \cap (a.use \cup a.blk) # {}
StableEdges(Es) == {e \in Es : e.l = "Stable"}
SchedEdges(Es)  == {e \in Es : e.l = "Sched"}
FrameOrderedOf(P, Es) ==
    LET Ss == TLCEval(StableEdges(Es))  Ts == TLCEval(SchedEdges(Es)) IN
    \A i \in {i \in 1..Len(P) : IsRF(P, i)} :
        LET later  == {j \in 1..Len(P) : i < j /\ IsRF(P, j) /\ FrConflict(P[i], P[j])}
            tlater == {j \in later : P[i].timed /\ P[j].timed}
        IN /\ (later # {} => later \subseteq FwdReach({i}, Ss, Len(P)))
           /\ (tlater # {} => tlater \subseteq FwdReach({i}, Ts, Len(P)))
FrameEdgesJustifiedOf(P, Es) ==
    \A e \in StableEdges(Es) \cup SchedEdges(Es) :
        \/ e.from = START \/ e.to = END
        \/ /\ e.from \in 1..Len(P) /\ e.to \in 1..Len(P)
           /\ IsRF(P, e.from) /\ IsRF(P, e.to) /\ FrConflict(P[e.from], P[e.to])
           /\ (e.l = "Sched" => (P[e.from].timed /\ P[e.to].timed))

Built == phase = "done"
WellFormed               == WellFormedOf(prog, edges)
Forward                  == ForwardOf(edges)
Connected                == Built => ConnectedOf(prog, edges)
ConflictsOrdered         == Built => ConflictsOrderedOf(prog, term, edges)
MemEdgesJustified        == MemEdgesJustifiedOf(prog, term, edges)
NoMemEdgeWithoutConflict == NoMemEdgeWithoutConflictOf(prog, term, edges)
FrameOrdered             == Built => FrameOrderedOf(prog, edges)
FrameEdgesJustified      == FrameEdgesJustifiedOf(prog, edges)

----------------------------------------------------------------------------
\* Loop invariants (beyond the listed properties): what the locals mean.

Done(n) == (n \in 1..Len(prog) /\ n < pc) \/ (n = END /\ term # <<>> /\ pc > Len(prog) + 1)
DoneNodes == {n \in Nodes(prog, term) : Done(n)}
LastIn(S) == IF S = {} THEN 0 ELSE Max(S)
\* each memory cell holds the last writer of its region and the readers since
MemCellsExact ==
    phase \in {"run", "done"} => \A x \in regions :
        LET ws == {n \in DoneNodes : WritesR(Sum(prog, term, n), x)}
            g  == LastIn(ws)
        IN /\ (g = 0 => mem[x].write = NoWrite)
           /\ (g # 0 => mem[x].write = [t |-> IF x \in Sum(prog, term, g).c THEN "Capture" ELSE "Write", n |-> g])
           /\ mem[x].reads = {n \in DoneNodes : n > g /\ x \in Sum(prog, term, n).r}
           /\ mem[x].on = (\E n \in DoneNodes : TouchesR(Sum(prog, term, n), x))
\* each frame cell holds the last user of its frame and the blockers since
FrameCellsExact ==
    phase \in {"run", "done"} => \A f \in frames :
        LET rf(n) == n \in 1..Len(prog) /\ n < pc /\ prog[n].role = "RF"
            us == {n \in 1..Len(prog) : rf(n) /\ f \in prog[n].use}
            g  == LastIn(us)
            tus == {n \in us : prog[n].timed}
            tg == LastIn(tus)
        IN /\ fr[f].write = [t |-> "Using", n |-> g]
           /\ fr[f].reads = {n \in 1..Len(prog) : rf(n) /\ n > g /\ f \in prog[n].blk}
           /\ tfr[f].write = [t |-> "Using", n |-> tg]
           /\ tfr[f].reads = {n \in 1..Len(prog) : rf(n) /\ prog[n].timed /\ n > tg /\ f \in prog[n].blk}
\* a classical instruction is trailing until some later instruction awaits one of its memory accesses
TrailingExact ==
    phase \in {"run", "done"} =>
        trailing = {n \in 1..Len(prog) : n < pc /\ prog[n].role = "C"
                                          /\ ~\E e \in MemEdges(edges) : e.from = n}
\* no edge enters START, none leaves END, no self-loop (weaker than Forward; kept for diagnostics)
NoSelfLoop == \A e \in edges : e.from # e.to
\* a block that was refused has no result; a block is refused exactly if it contains a refused instruction
ErrExact == (phase = "err") <=> (\E n \in DoneNodes : Refused(n, Sum(prog, term, n)))
=============================================================================
