------------------------------ MODULE ExprSyntax ------------------------------
(***************************************************************************)
(* The expression printer and the expression parser of quil-rs, and the    *)
(* round trip between them (property C03).                                 *)
(*                                                                         *)
(*   printer: impl Quil for Expression, format_inner_expression,           *)
(*            write_parenthesized, format_complex                          *)
(*            (quil-rs/src/expression/mod.rs)                              *)
(*   parser:  parse, parse_immediate_value, parse_expression_identifier,   *)
(*            parse_function_call, parse_grouped_expression, parse_infix,  *)
(*            parse_prefix and the Precedence table                        *)
(*            (quil-rs/src/parser/expression.rs)                           *)
(*                                                                         *)
(* The printer produces a sequence of *pieces* [c, s, x]: the lexer's      *)
(* token class c, the token's content s (operator symbol, identifier,      *)
(* canonical magnitude of a numeric literal) and the printed text x.  The  *)
(* concatenation of the x is the Quil text; the pieces without x are the   *)
(* token stream the parser sees (the lexer drops white space; infix minus  *)
(* is printed " - " and lexes to the same operator token as prefix "-").   *)
(*                                                                         *)
(* One operator per function of the code, same case order.  The state      *)
(* machine is one public call per action: ToQuil then FromStr              *)
(* (Expression::from_str).                                                 *)
(***************************************************************************)
EXTENDS ExprAbs

\* Deviations reproduce the code as it was before a repair (off in shipped configurations):
\*   "NoLiteralGrouping": format_inner_expression / the prefix arm do not parenthesise nested
\*        prefixes, signed literals and two-part literals (before /repo commit d3498e6)
\*   "NoInfixGrouping":   inner infix nodes are printed without parentheses
\*   "PrefixBindsLoose":  the parser applies a prefix minus to the whole following infix chain of higher
\*        precedence instead of to the atom
\*   "KeywordBeforeBrackets": parse_expression_identifier looks at the case-folded identifier first
\*        (cis/cos/exp/i/pi/sin/sqrt) and tries `name[index]` only in the fallback, so a memory region named
\*        like a function or constant (exp[1], Sin[0], pi[0]) no longer parses
CONSTANT Deviations

----------------------------------------------------------------------------
\* pieces

Pc(c, s, x) == [c |-> c, s |-> s, x |-> x]
LP == Pc("lp", "(", "(")
RP == Pc("rp", ")", ")")
LB == Pc("lb", "[", "[")
RB == Pc("rb", "]", "]")
Id(name)  == Pc("id", name, name)
VarP(v)   == Pc("var", v, "%" \o v)
OpTxt(o)  == IF o = "-" THEN " - " ELSE o        \* spaces distinguish the operator from a hyphenated name
OpP(o)    == Pc("op", o, OpTxt(o))
Minus     == Pc("op", "-", "-")                  \* sign of a literal / prefix operator
IntP(n)   == Pc("int", ToString(n), ToString(n))

\* magnitude key of a component ("-1.5" -> "1.5")
MagKey(s) == IF Lit[s].neg THEN CHOOSE k \in DOMAIN Lit : ~Lit[k].neg /\ Lit[k].rt = Lit[s].rt ELSE s

\* one signed component of a complex literal, as lexical prints it
Comp(s, imag) == (IF Lit[s].neg THEN <<Minus>> ELSE <<>>)
                 \o <<IF imag THEN Pc("float", MagKey(s), Lit[s].it)
                      ELSE Pc(Lit[s].cls, MagKey(s), Lit[s].rt)>>
ImagI == Id("i")

\* format_complex
FormatComplex(e) ==
  IF e.re = "0" /\ e.im = "0" THEN <<Pc("int", "0", "0")>>
  ELSE IF e.im = "0" THEN Comp(e.re, FALSE)
  ELSE IF e.re = "0" THEN Comp(e.im, TRUE) \o <<ImagI>>
  ELSE Comp(e.re, FALSE) \o (IF ~Lit[e.im].neg THEN <<Pc("op", "+", "+")>> ELSE <<>>)
       \o Comp(e.im, TRUE) \o <<ImagI>>

IsTwoPart(e)   == e.re # "0" /\ e.im # "0"
IsSignedLit(e) == Lit[e.re].neg \/ Lit[e.im].neg
Paren(ps)      == <<LP>> \o ps \o <<RP>>
PrefixPieces(t) == IF t = "neg" THEN <<Minus>> ELSE <<>>   \* PrefixOperator::Plus prints ""

RECURSIVE Write(_), Inner(_)
\* impl Quil for Expression :: write
Write(e) ==
  CASE e.t = "addr" -> <<Id(e.m.name), LB, IntP(e.m.index), RB>>
    [] e.t = "fn"   -> <<Id(e.f), LP>> \o Write(e.e) \o <<RP>>
    [] e.t = "inf"  -> Inner(e.l) \o <<OpP(e.op)>> \o Inner(e.r)
    [] e.t = "num"  -> FormatComplex(e)
    [] e.t = "pi"   -> <<Id("pi")>>
    [] e.t \in {"neg", "pos"} ->
         PrefixPieces(e.t) \o
         (IF "NoLiteralGrouping" \in Deviations THEN Inner(e.e)
          ELSE IF e.e.t \in {"neg", "pos"} THEN Paren(Write(e.e))
          ELSE IF e.e.t = "num" /\ (IsTwoPart(e.e) \/ IsSignedLit(e.e)) THEN Paren(Write(e.e))
          ELSE Inner(e.e))
    [] e.t = "var"  -> <<VarP(e.v)>>
\* format_inner_expression
Inner(e) ==
  IF e.t = "inf" THEN
       (IF "NoInfixGrouping" \in Deviations THEN Inner(e.l) \o <<OpP(e.op)>> \o Inner(e.r)
        ELSE Paren(Inner(e.l) \o <<OpP(e.op)>> \o Inner(e.r)))
  ELSE IF e.t = "num" /\ IsTwoPart(e) /\ "NoLiteralGrouping" \notin Deviations THEN Paren(Write(e))
  ELSE Write(e)

RECURSIVE TextOf(_)
TextOf(ps) == IF ps = <<>> THEN "" ELSE Head(ps).x \o TextOf(Tail(ps))

\* the lexer on printed text: white space dropped, token = class + content
Lex(ps) == [n \in DOMAIN ps |-> [c |-> ps[n].c, s |-> ps[n].s]]

----------------------------------------------------------------------------
\* parser

Eof == [c |-> "eof", s |-> ""]
Tok(ts, p) == IF p <= Len(ts) THEN ts[p] ELSE Eof
Err == [err |-> TRUE]
IsErr(r) == "err" \in DOMAIN r
Ok(e, p) == [e |-> e, p |-> p]

\* enum Precedence { Lowest, Sum, Product, Exponentiation, Call } and From<&Token>
Prec(k) == CASE k.c = "op" /\ k.s \in {"+", "-"} -> 1
             [] k.c = "op" /\ k.s \in {"*", "/"} -> 2
             [] k.c = "op" /\ k.s = "^" -> 3
             [] k.c = "lp" -> 4
             [] OTHER -> 0

IndexOf == "0" :> 0 @@ "1" :> 1 @@ "2" :> 2 @@ "3" :> 3

IsI(k) == k.c = "id" /\ k.s = "i"

\* parse_immediate_value
Immediate(ts, p) ==
  LET k == Tok(ts, p) IN
  IF k.c \in {"int", "float"}
  THEN (IF IsI(Tok(ts, p + 1)) THEN Ok(Num("0", k.s), p + 2) ELSE Ok(Num(k.s, "0"), p + 1))
  ELSE Err

RECURSIVE Parse(_, _, _), Loop(_, _, _, _)

\* parse_function_call (input is positioned after the function name)
FunctionCall(ts, p, f) ==
  IF Tok(ts, p).c # "lp" THEN Err
  ELSE LET r == Parse(ts, p + 1, 0) IN
       IF IsErr(r) THEN Err
       ELSE IF Tok(ts, r.p).c # "rp" THEN Err
       ELSE Ok(Fn(f, r.e), r.p + 1)

\* parse_grouped_expression (input is positioned after the left parenthesis)
Grouped(ts, p) ==
  LET r == Parse(ts, p, 0) IN
  IF IsErr(r) THEN Err
  ELSE IF Tok(ts, r.p).c # "rp" THEN Err
  ELSE Ok(r.e, r.p + 1)

\* `ident.to_lowercase()` on the identifiers of the alphabets (everything else is already lower case)
Lower == "Sin" :> "sin" @@ "SIN" :> "sin" @@ "Cos" :> "cos" @@ "EXP" :> "exp" @@ "Exp" :> "exp" @@ "Sqrt" :> "sqrt"
      @@ "PI" :> "pi" @@ "Pi" :> "pi" @@ "I" :> "i"
Fold(s) == IF s \in DOMAIN Lower THEN Lower[s] ELSE s

\* parse_expression_identifier.  By order of precedence: 1. memory reference with brackets, 2. function
\* and constant identifiers (case-insensitive), 3. anything else is a memory reference without brackets
ExprIdentifier(ts, p) ==
  LET k == Tok(ts, p)
      kw == Fold(k.s)
      brackets == Tok(ts, p + 1).c = "lb" /\ Tok(ts, p + 2).c = "int" /\ Tok(ts, p + 3).c = "rb"
      asMemRef == Ok(Addr(k.s, IndexOf[Tok(ts, p + 2).s]), p + 4)    \* parse_memory_reference_with_brackets
      asKeyword == CASE kw \in Functions -> FunctionCall(ts, p + 1, kw)
                     [] kw = "i"  -> Ok(Num("0", "1"), p + 1)
                     [] kw = "pi" -> Ok(PiC, p + 1)
                     [] OTHER     -> Ok(Addr(k.s, 0), p + 1)
  IN IF "KeywordBeforeBrackets" \in Deviations
     THEN (IF kw \in Functions \cup {"i", "pi"} THEN asKeyword ELSE IF brackets THEN asMemRef ELSE asKeyword)
     ELSE (IF brackets THEN asMemRef ELSE asKeyword)

\* parse
Parse(ts, p, prec) ==
  LET hasPrefix == Tok(ts, p).c = "op" /\ Tok(ts, p).s = "-"      \* opt(parse_prefix)
      p1  == IF hasPrefix THEN p + 1 ELSE p
      imm == Immediate(ts, p1)                                      \* opt(parse_immediate_value)
      k   == Tok(ts, p1)
      a   == IF ~IsErr(imm) THEN imm
             ELSE CASE k.c = "var" -> Ok(Var(k.s), p1 + 1)
                    [] k.c = "id"  -> ExprIdentifier(ts, p1)
                    [] k.c = "lp"  -> Grouped(ts, p1 + 1)
                    [] OTHER       -> Err
  IN IF IsErr(a) THEN Err
     ELSE IF hasPrefix /\ "PrefixBindsLoose" \in Deviations
          THEN LET r == Loop(ts, a.e, a.p, IF prec > 1 THEN prec ELSE 1) IN
               IF IsErr(r) THEN Err ELSE Loop(ts, Neg(r.e), r.p, prec)
     ELSE Loop(ts, IF hasPrefix THEN Neg(a.e) ELSE a.e, a.p, prec)

\* the `while get_precedence(input) > precedence` loop with parse_infix
Loop(ts, left, p, prec) ==
  LET k == Tok(ts, p) IN
  IF Prec(k) > prec /\ k.c = "op"
  THEN LET r == Parse(ts, p + 1, Prec(k)) IN
       IF IsErr(r) THEN Err ELSE Loop(ts, Inf(left, k.s, r.e), r.p, prec)
  ELSE Ok(left, p)         \* also: a left parenthesis has Precedence::Call but is no operator

\* Expression::from_str = parse_expression + disallow_leftover
ParseAll(ts) == LET r == Parse(ts, 1, 0) IN
                IF IsErr(r) THEN Err ELSE IF r.p = Len(ts) + 1 THEN r ELSE Err

----------------------------------------------------------------------------
\* the round trip as a state machine: one action per public call

VARIABLES tree,     \* the expression (input)
          phase,    \* "gen" | "printed" | "parsed"
          pieces,   \* result of to_quil
          result    \* result of from_str: Ok(e, p) or Err
vars == <<tree, phase, pieces, result>>

NoResult == [pending |-> TRUE]
Fresh(e) == tree = e /\ phase = "gen" /\ pieces = <<>> /\ result = NoResult

ToQuil == /\ phase = "gen" /\ pieces' = Write(tree) /\ phase' = "printed"
         /\ UNCHANGED <<tree, result>>
FromStr == /\ phase = "printed" /\ result' = ParseAll(Lex(pieces)) /\ phase' = "parsed"
             /\ UNCHANGED <<tree, pieces>>

----------------------------------------------------------------------------
\* The property (C03) on (tree, re-parsed tree), independent of printer and parser:
\* the text parses, and the parsed expression has the same value under every assignment.

\* two generic assignments of every variable and memory region of the alphabets (distinct names get
\* distinct values, so a mix-up of names is seen)
NameList == << "x", "y", "theta", "m", "n", "ro", "sin", "Sin", "SIN", "cos", "Cos", "cis", "exp", "EXP", "Exp", "sqrt",
               "Sqrt", "pi", "PI", "Pi", "i", "I" >>
NameIdx(s) == CHOOSE k \in DOMAIN NameList : NameList[k] = s
MkEnv(a, b) == [vars |-> [v \in Range(NameList) |-> (a + 37 * NameIdx(v)) % P],
                mem  |-> [r \in Range(NameList) |-> [c \in 1..4 |-> (b + 11 * NameIdx(r) + 301 * c) % P]]]
Envs == { MkEnv(123, 901), MkEnv(58, 17) }

SameValue(a, b) == \A env \in Envs : Eval(a, env.vars, env.mem) = Eval(b, env.vars, env.mem)

RoundTripParses == phase = "parsed" => ~IsErr(result)
RoundTripValue  == (phase = "parsed" /\ ~IsErr(result)) => SameValue(result.e, tree)

\* more than the statement asks (reported as MODEL-DIVERGENCE by the harness, never as a violation):
\* on the re-parsed tree the round trip is exact (same tree again); the free names are unchanged; the
\* parser never produces a prefix plus, a signed literal or a two-part literal.  (The *text* is not
\* stable: Number(1-2i) prints "1-2.0i", its re-parsed form 1 - 2.0i prints "1 - 2.0i".)
RECURSIVE ParserNormal(_)
ParserNormal(e) ==
  CASE e.t = "num" -> ~IsTwoPart(e) /\ ~IsSignedLit(e)
    [] e.t \in {"pi", "var", "addr"} -> TRUE
    [] e.t = "pos" -> FALSE
    [] e.t \in {"neg", "fn"} -> ParserNormal(e.e)
    [] e.t = "inf" -> ParserNormal(e.l) /\ ParserNormal(e.r)
ReparseExact  == (phase = "parsed" /\ ~IsErr(result)) =>
                    LET again == ParseAll(Lex(Write(result.e))) IN ~IsErr(again) /\ again.e = result.e
NamesKept     == (phase = "parsed" /\ ~IsErr(result)) =>
                    VarsOf(result.e) = VarsOf(tree) /\ AddrsOf(result.e) = AddrsOf(tree)
ParsedNormal  == (phase = "parsed" /\ ~IsErr(result)) => ParserNormal(result.e)
=============================================================================
