------------------------------ MODULE Schedule ------------------------------
(***************************************************************************)
(* Block schedules of quil-rs:                                             *)
(*   BasicBlock::as_schedule            (program/analysis/control_flow_graph.rs)  step 1: expand     *)
(*   ScheduledBasicBlock::build         (program/scheduling/graph.rs)      timed-frame part          *)
(*   ScheduledBasicBlock::as_schedule   (program/scheduling/schedule.rs)   ASAP over Scheduled edges *)
(*   BasicBlock::as_schedule            step 3: map the items back to the source instructions        *)
(*   instruction_duration_seconds / default_frame_match_condition / FrameSet::filter (case analysis) *)
(*                                                                         *)
(* Part 1 (module ScheduleDefs) is a case analysis: the Quil-T frame rules  *)
(* and the documented                                                      *)
(* durations, turning a structured instruction into a *summary*            *)
(*       [use : frames used, blk : frames blocked, dur : Opt(duration)].   *)
(* Part 2 is the state machine, one action per loop iteration of the code. *)
(* Part 3 states C25 on (flat block, items, spans) without reference to    *)
(* the algorithm (no cells, no edges), plus the lemmas linking the two.    *)
(*                                                                         *)
(* Durations are small naturals (seconds; exact in f64), frames are        *)
(* indices into the program's frame table, instruction nodes are 1-based   *)
(* positions of the (expanded) block.                                      *)
(***************************************************************************)
EXTENDS ScheduleDefs

----------------------------------------------------------------------------
\* Part 2.  The algorithm as a state machine

CONSTANT AnyTopo      \* TRUE: the scheduling loop may take any ready node (petgraph's Topo order is unspecified);
                      \* FALSE: it takes the least ready node (one representative order)

VARIABLES src,      \* input: the source block, a sequence of [text, exp : sequence of summaries]
                    \*   (exp = <<own summary>> for an instruction no calibration matches)
          nframes,  \* input: size of the frame table
          spc,      \* BasicBlock::as_schedule loop 1 position
          flat,     \* calibrated_block_instructions (sequence of summaries)
          mapping,  \* calibrated_to_uncalibrated_instruction_source_mapping : set of [first, src]
          pc,       \* ScheduledBasicBlock::build loop position
          cells,    \* last_timed_instruction_by_frame : frame -> [write, reads]
          edges,    \* the Scheduled edges : set of <<from, to>>
          items,    \* schedule.items, in the order pushed
          total,    \* schedule.duration
          ipc,      \* fold position of step 3
          spans,    \* uncalibrated_schedule_items_by_instruction_index : set of [src, start, dur]
          sdur,     \* duration of Schedule::from(spans)
          err,      \* the call returned Err
          phase     \* "gen" | "expand" | "build" | "sched" | "map" | "done"
vars == <<src, nframes, spc, flat, mapping, pc, cells, edges, items, total, ipc, spans, sdur, err, phase>>

RunInit(s, nf) ==
  /\ src = s /\ nframes = nf /\ spc = 1 /\ flat = <<>> /\ mapping = {} /\ pc = 1
  /\ cells = [f \in 1..nf |-> InitCell] /\ edges = {} /\ items = <<>> /\ total = 0
  /\ ipc = 1 /\ spans = {} /\ sdur = 0 /\ err = FALSE

ExpandStep ==
  /\ phase = "expand" /\ spc <= Len(src)
  /\ LET r == ExpandF(flat, mapping, src[spc], spc) IN flat' = r.flat /\ mapping' = r.mapping
  /\ spc' = spc + 1
  /\ UNCHANGED <<src, nframes, pc, cells, edges, items, total, ipc, spans, sdur, err, phase>>
ExpandDone ==
  /\ phase = "expand" /\ spc = Len(src) + 1 /\ phase' = "build"
  /\ UNCHANGED <<src, nframes, spc, flat, mapping, pc, cells, edges, items, total, ipc, spans, sdur, err>>

BuildStep ==
  /\ phase = "build" /\ pc <= Len(flat)
  /\ IF IsNone(flat[pc].dur)
     THEN \* no duration: build fails for a gate/measurement (not schedulable), as_schedule for anything else
          \* (UnknownDuration); both are Err of the public call, merged here
          /\ err' = TRUE /\ phase' = "done" /\ UNCHANGED <<pc, cells, edges>>
     ELSE /\ LET r == BuildF(cells, edges, flat[pc], pc) IN cells' = r.cells /\ edges' = r.edges
          /\ pc' = pc + 1 /\ UNCHANGED <<err, phase>>
  /\ UNCHANGED <<src, nframes, spc, flat, mapping, items, total, ipc, spans, sdur>>
BuildFinish ==
  /\ phase = "build" /\ pc = Len(flat) + 1
  /\ edges' = edges \cup {<<n, END>> : n \in UNION {Pending(cells[f]) : f \in DOMAIN cells}}
  /\ phase' = "sched"
  /\ UNCHANGED <<src, nframes, spc, flat, mapping, pc, cells, items, total, ipc, spans, sdur, err>>

SchedStep ==
  /\ phase = "sched"
  /\ \E j \in 1..Len(flat) :
       /\ ReadyNode(edges, items, j)
       /\ AnyTopo \/ \A i \in 1..(j - 1) : ~ReadyNode(edges, items, i)
       /\ LET st == StartFrom(edges, items, j)
              en == st + flat[j].dur.some
          IN /\ items' = Append(items, [index |-> j, start |-> st, dur |-> flat[j].dur.some])
             /\ total' = IF total < en THEN en ELSE total
  /\ UNCHANGED <<src, nframes, spc, flat, mapping, pc, cells, edges, ipc, spans, sdur, err, phase>>
SchedFinish ==
  /\ phase = "sched" /\ Scheduled(items) = 1..Len(flat) /\ phase' = "map"
  /\ UNCHANGED <<src, nframes, spc, flat, mapping, pc, cells, edges, items, total, ipc, spans, sdur, err>>

MapStep ==
  /\ phase = "map" /\ ipc <= Len(items)
  /\ spans' = MapF(spans, mapping, items[ipc]) /\ ipc' = ipc + 1
  /\ UNCHANGED <<src, nframes, spc, flat, mapping, pc, cells, edges, items, total, sdur, err, phase>>
Collect ==     \* Schedule::from(items)
  /\ phase = "map" /\ ipc = Len(items) + 1
  /\ sdur' = Max({0} \cup {x.start + x.dur : x \in spans}) /\ phase' = "done"
  /\ UNCHANGED <<src, nframes, spc, flat, mapping, pc, cells, edges, items, total, ipc, spans, err>>

Run == ExpandStep \/ ExpandDone \/ BuildStep \/ BuildFinish \/ SchedStep \/ SchedFinish \/ MapStep \/ Collect

----------------------------------------------------------------------------
\* Part 3.  C25 as invariants (predicates in ScheduleDefs)

Ok == phase = "done" /\ ~err
EachOnce         == Ok => EachOnceOf(flat, items)
Documented       == Ok => DocumentedOf(flat, items)
Asap             == Ok => AsapOf(flat, items)
FrameExclusive   == Ok => FrameExclusiveOf(flat, items)
DurationIsMaxEnd == Ok => DurationIsMaxEndOf(items, total)
SpansCover       == Ok => /\ SpansCoverOf(src, items, spans)
                          /\ sdur = total        \* both entry points report the same duration
ErrExact         == phase = "done" => (err <=> ~Schedulable(FlatOf(src)))
FlatExact        == phase = "build" => flat = FlatOf(src)          \* (flat and mapping are not written after step 1)

\* the source map of step 1 sends every expanded position to the source instruction it came from, although
\* instructions that expand to nothing overwrite each other's entry
MappingExact     == phase = "build" =>
                      \A j \in DOMAIN flat : \E n \in DOMAIN src : j \in ExpIdx(src, n) /\ Lookup(mapping, j) = Some(n)

\* Lemmas linking the algorithm to the declarative statement
\* (a) edges go forward and (b) link conflicting pairs only; (c) every conflicting pair is linked by a path:
\*     then "max over direct Scheduled predecessors" = "max over all earlier conflicting instructions".
InstrEdges == {e \in edges : e[1] # START /\ e[2] # END}
Forward        == \A e \in edges : e[1] < e[2]
EdgesJustified == \A e \in InstrEdges : Conflict(flat, e[1], e[2])
ConflictsLinked == phase = "sched" /\ items = <<>> =>              \* (the graph is complete and no longer changes)
                     \A i, j \in DOMAIN flat : (i < j /\ Conflict(flat, i, j)) => j \in Reach({i}, InstrEdges, Len(flat))
\* the statement's own wording, on the graph: an item starts at the latest end of its direct predecessors
AsapGraph == Ok => \A j \in DOMAIN flat : St(items, j) = StartFrom(edges, items, j)
\* loop invariant of build: a cell holds the last user of its frame and the blockers since
CellMeaning == phase = "build" /\ ~err =>
   \A f \in DOMAIN cells :
      LET users == {n \in 1..(pc - 1) : f \in flat[n].use}
          w == IF users = {} THEN START ELSE Max(users)
      IN /\ cells[f].write = w
         /\ cells[f].reads = {n \in 1..(pc - 1) : f \in flat[n].blk /\ n > w}
\* the result does not depend on the order in which ready nodes are taken, nor on the fold order of step 3
Deterministic == Ok => /\ {items[n] : n \in DOMAIN items} = LET r == ItemsOf(flat, nframes) IN {r[n] : n \in DOMAIN r}
=============================================================================
