---------------------------- MODULE ScheduleDefs ----------------------------
(* Constant-level part of the Schedule specification (see Schedule.tla for the overview): instructions, Quil-T
   frame rules and documented durations (Part 1), the step functions of the algorithm (Part 2) and the
   declarative statement of C25 on (block, items, spans) (Part 3).  No variables: shared by Schedule,
   ScheduleTrace and Simplify (C35). *)
EXTENDS Abs, TLC


----------------------------------------------------------------------------
\* Part 1.  Instructions, frame rules, durations  (declarative; also used by C35)

\* frame table : sequence of [name, qubits (sequence of qubit indices), rate (SAMPLE-RATE, 0 = attribute absent)]
\* waveforms   : sequence of [name, len (number of samples of the DEFWAVEFORM)]
Fr(name, qubits) == [name |-> name, qubits |-> qubits]
Tmpl(d, pl, pr)  == [t |-> "tmpl", name |-> "flat", dur |-> d, padl |-> pl, padr |-> pr]   \* template waveform: duration + pads
TmplN(n, d, pl, pr) == [t |-> "tmpl", name |-> n, dur |-> d, padl |-> pl, padr |-> pr]
Def(name)        == [t |-> "def", name |-> name]                        \* DEFWAVEFORM reference

Pulse(text, blocking, frame, wf)   == [k |-> "Pulse", text |-> text, blocking |-> blocking, frame |-> frame, wf |-> wf]
Capture(text, blocking, frame, wf) == [k |-> "Capture", text |-> text, blocking |-> blocking, frame |-> frame, wf |-> wf]
RawCapture(text, blocking, frame, d) == [k |-> "RawCapture", text |-> text, blocking |-> blocking, frame |-> frame, dur |-> d]
Delay(text, qubits, names, d)      == [k |-> "Delay", text |-> text, qubits |-> qubits, names |-> names, dur |-> d]
Fence(text, qubits)                == [k |-> "Fence", text |-> text, qubits |-> qubits]
SetShift(text, frame)              == [k |-> "Set", text |-> text, frame |-> frame]     \* SET-/SHIFT- FREQUENCY/PHASE/SCALE
SwapPhases(text, f1, f2)           == [k |-> "Swap", text |-> text, frame |-> f1, frame2 |-> f2]
Reset(text, qubits)                == [k |-> "Reset", text |-> text, qubits |-> qubits]   \* RESET q (no duration; bare RESET is not modelled)
Untimed(text)                      == [k |-> "Other", text |-> text]    \* anything without a duration (NOP, RESET, CALL, plain gate)

IsPlay(i) == i.k \in {"Pulse", "Capture", "RawCapture"}

AnyOfQubits(ft, Q) == {n \in DOMAIN ft : Range(ft[n].qubits) \cap Q # {}}
ExactQubits(ft, Q) == {n \in DOMAIN ft : Range(ft[n].qubits) = Q}
AnyOfNames(ft, N)  == {n \in DOMAIN ft : ft[n].name \in N}
Specific(ft, f)    == {n \in DOMAIN ft : ft[n].name = f.name /\ ft[n].qubits = f.qubits}

\* Quil-T: which frames an instruction plays on / modifies
UsedOf(ft, i) ==
  CASE IsPlay(i) \/ i.k = "Set" -> Specific(ft, i.frame)
    [] i.k = "Swap"  -> Specific(ft, i.frame) \cup Specific(ft, i.frame2)
    [] i.k = "Delay" -> IF i.names = <<>> THEN ExactQubits(ft, Range(i.qubits))
                        ELSE ExactQubits(ft, Range(i.qubits)) \cap AnyOfNames(ft, Range(i.names))
    [] i.k = "Fence" -> IF i.qubits = <<>> THEN DOMAIN ft ELSE AnyOfQubits(ft, Range(i.qubits))
    [] i.k = "Reset" -> ExactQubits(ft, Range(i.qubits))
    [] OTHER -> {}
\* ... and which it keeps others from playing on without using them (blocking PULSE/CAPTURE/RAW-CAPTURE, RESET)
BlockedOf(ft, i) ==
  IF IsPlay(i) /\ i.blocking THEN AnyOfQubits(ft, Range(i.frame.qubits)) \ UsedOf(ft, i)
  ELSE IF i.k = "Reset" THEN AnyOfQubits(ft, Range(i.qubits)) \ UsedOf(ft, i)
  ELSE {}

WfLen(wfs, name) == LET S == {n \in DOMAIN wfs : wfs[n].name = name}
                    IN IF S = {} THEN None ELSE Some(wfs[CHOOSE n \in S : TRUE].len)

\* documented duration (instruction_duration_seconds); None = unknown
DurOf(ft, wfs, i) ==
  CASE i.k \in {"Pulse", "Capture"} ->
         IF IsSome(WfLen(wfs, i.wf.name))
         THEN \* DEFWAVEFORM: sample count / the common SAMPLE-RATE of the used frames
              LET rates == {ft[n].rate : n \in UsedOf(ft, i)} \ {0}
              IN IF Cardinality(rates) = 1
                 THEN Some(WfLen(wfs, i.wf.name).some \div (CHOOSE r \in rates : TRUE)) ELSE None
         ELSE IF i.wf.t = "tmpl" THEN Some(i.wf.dur + i.wf.padl + i.wf.padr)
         ELSE None      \* an undefined non-template waveform has no "duration" parameter
    [] i.k \in {"Delay", "RawCapture"} -> Some(i.dur)
    [] i.k \in {"Fence", "Set", "Swap"} -> Some(0)
    [] OTHER -> None

Summ(ft, wfs, i) == [text |-> i.text, use |-> UsedOf(ft, i), blk |-> BlockedOf(ft, i), dur |-> DurOf(ft, wfs, i)]

\* The frame-conflict relation of the property: one uses a frame the other uses or blocks.
ConflictS(a, b) == \/ a.use \cap (b.use \cup b.blk) # {}
                   \/ b.use \cap (a.use \cup a.blk) # {}

----------------------------------------------------------------------------
\* Part 2 (functions).  One step of each loop of the algorithm, as functions of the loop state;
\* module Schedule turns them into actions, ScheduleTrace and Simplify use the folds.

START == 0
END   == 1000000

InitCell == [write |-> START, reads |-> {}]     \* Access::initial_writer() = BlockStart for frames

\* --- BasicBlock::as_schedule, step 1: one source instruction
ExpandF(fl, mp, e, s) == [flat |-> fl \o e.exp,
                          mapping |-> {m \in mp : m.first # Len(fl) + 1} \cup {[first |-> Len(fl) + 1, src |-> s]}]
\* --- DependencyQueue<InstructionFrameInteraction>::record_access_and_get_dependencies
Deps(c, using)        == {c.write} \cup (IF using THEN c.reads ELSE {})
After(c, node, using) == IF using THEN [write |-> node, reads |-> {}] ELSE [c EXCEPT !.reads = @ \cup {node}]
Pending(c)            == c.reads \cup {c.write}

\* --- ScheduledBasicBlock::build, one instruction (timed cells; every instruction with a duration is_scheduled)
BuildF(cs, es, s, node) ==
  [cells |-> [f \in DOMAIN cs |-> IF f \in s.use THEN After(cs[f], node, TRUE)
                                   ELSE IF f \in s.blk THEN After(cs[f], node, FALSE) ELSE cs[f]],
   edges |-> es \cup {<<d, node>> : d \in UNION ({Deps(cs[f], TRUE) : f \in s.use} \cup {Deps(cs[f], FALSE) : f \in s.blk})}]
\* --- ScheduledBasicBlock::as_schedule, one iteration of the topological loop
Scheduled(its)  == {its[n].index : n \in DOMAIN its}
ItemOf(its, j)  == its[CHOOSE n \in DOMAIN its : its[n].index = j]
St(its, j)      == ItemOf(its, j).start
En(its, j)      == ItemOf(its, j).start + ItemOf(its, j).dur
Preds(es, j)    == {e[1] : e \in {x \in es : x[2] = j}} \ {START}
ReadyNode(es, its, j) == j \notin Scheduled(its) /\ Preds(es, j) \subseteq Scheduled(its)
StartFrom(es, its, j) == Max({0} \cup {En(its, i) : i \in Preds(es, j)})
\* --- BasicBlock::as_schedule, step 3: one schedule item
Lookup(mp, idx) == LET ks == {m \in mp : m.first <= idx}          \* range(..=idx).next_back()
                   IN IF ks = {} THEN None ELSE Some((CHOOSE m \in ks : \A o \in ks : o.first <= m.first).src)
UnionSpan(a, b) == LET st == IF b.start < a.start THEN b.start ELSE a.start
                       ea == a.start + a.dur
                       eb == b.start + b.dur
                       en == IF ea < eb THEN eb ELSE ea
                   IN [start |-> st, dur |-> en - st]
MapF(sp, mp, it) ==
  LET l == Lookup(mp, it.index) IN
  IF IsNone(l) THEN sp
  ELSE LET old == {x \in sp : x.src = l.some}
           new == IF old = {} THEN [start |-> it.start, dur |-> it.dur]
                  ELSE UnionSpan(CHOOSE x \in old : TRUE, it)
       IN (sp \ old) \cup {[src |-> l.some, start |-> new.start, dur |-> new.dur]}
\* The same algorithm as functions (used where a whole call is one step: trace validation, C35)
RECURSIVE ExpandAll(_, _, _, _)
ExpandAll(s, n, fl, mp) == IF n > Len(s) THEN [flat |-> fl, mapping |-> mp]
                           ELSE LET r == ExpandF(fl, mp, s[n], n) IN ExpandAll(s, n + 1, r.flat, r.mapping)
RECURSIVE BuildAll(_, _, _, _)
BuildAll(p, n, cs, es) == IF n > Len(p) THEN es ELSE LET r == BuildF(cs, es, p[n], n) IN BuildAll(p, n + 1, r.cells, r.edges)
EdgesOf(p, nf) == BuildAll(p, 1, [f \in 1..nf |-> InitCell], {})
RECURSIVE SchedAll(_, _, _)
SchedAll(p, es, its) ==
  IF Scheduled(its) = 1..Len(p) THEN its
  ELSE LET j == Min({x \in 1..Len(p) : ReadyNode(es, its, x)})
       IN SchedAll(p, es, Append(its, [index |-> j, start |-> StartFrom(es, its, j), dur |-> p[j].dur.some]))
Schedulable(p)   == \A n \in DOMAIN p : IsSome(p[n].dur)
ItemsOf(p, nf)   == SchedAll(p, EdgesOf(p, nf), <<>>)                 \* requires Schedulable(p)
RECURSIVE MapAll(_, _, _, _)
MapAll(its, n, mp, sp) == IF n > Len(its) THEN sp ELSE MapAll(its, n + 1, mp, MapF(sp, mp, its[n]))

----------------------------------------------------------------------------
\* Part 3.  C25, stated on (block p of summaries, items its, source block s, spans sp)

Conflict(p, i, j) == ConflictS(p[i], p[j])
\* every timed instruction appears exactly once
EachOnceOf(p, its) == /\ Len(its) = Len(p)
                      /\ \A j \in DOMAIN p : Cardinality({n \in DOMAIN its : its[n].index = j}) = 1
\* with the documented duration
DocumentedOf(p, its) == \A n \in DOMAIN its : its[n].index \in DOMAIN p /\ Some(its[n].dur) = p[its[n].index].dur
\* starting when its last timed predecessor ends (or at 0): predecessor = earlier conflicting instruction
AsapOf(p, its) == \A j \in DOMAIN p :
                    St(its, j) = Max({0} \cup {En(its, i) : i \in {x \in 1..(j - 1) : Conflict(p, x, j)}})
\* no two instructions where one uses a frame the other uses or blocks overlap in time (open intervals)
Overlap(its, i, j) == St(its, i) < En(its, j) /\ St(its, j) < En(its, i)
FrameExclusiveOf(p, its) == \A i, j \in DOMAIN p : (i < j /\ Conflict(p, i, j)) => ~Overlap(its, i, j)
\* the schedule's duration is the latest end time
DurationIsMaxEndOf(its, d) == d = Max({0} \cup {its[n].start + its[n].dur : n \in DOMAIN its})

\* positions of what source instruction n expanded to
RECURSIVE FirstOf(_, _)
FirstOf(s, n) == IF n = 1 THEN 1 ELSE FirstOf(s, n - 1) + Len(s[n - 1].exp)
ExpIdx(s, n)  == FirstOf(s, n)..(FirstOf(s, n) + Len(s[n].exp) - 1)
FlatOf(s)     == FlattenSeq([n \in DOMAIN s |-> s[n].exp])
\* each source instruction's span exactly covers the spans of what it expanded to (none if it expanded to nothing)
SpansCoverOf(s, its, sp) ==
  /\ \A x \in sp : x.src \in DOMAIN s
  /\ \A n \in DOMAIN s :
       LET E == ExpIdx(s, n)
           X == {x \in sp : x.src = n}
       IN IF E = {} THEN X = {}
          ELSE /\ Cardinality(X) = 1
               /\ \A x \in X : /\ x.start = Min({St(its, j) : j \in E})
                               /\ x.start + x.dur = Max({En(its, j) : j \in E})

RECURSIVE Reach(_, _, _)
Reach(S, es, k) == IF k = 0 THEN S ELSE LET T == S \cup {e[2] : e \in {x \in es : x[1] \in S}} IN IF T = S THEN S ELSE Reach(T, es, k - 1)
=============================================================================
