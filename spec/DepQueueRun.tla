---------------------------- MODULE DepQueueRun ----------------------------
(***************************************************************************)
(* One DependencyQueue cell as a state machine driven by an arbitrary      *)
(* access sequence: `Record` = record_access_and_get_dependencies,         *)
(* `TakePending` = into_pending_dependencies.  The invariants are the      *)
(* contract of DepQueue evaluated on the recorded sequence, plus the       *)
(* representation invariant of the cell.                                   *)
(***************************************************************************)
EXTENDS DepQueue

\* `hist` is the access sequence so far with the reported sets; it IS the input of the case (the generator
\* grows it), so keeping it in the state costs nothing.

VARIABLES inst,     \* "mem" | "frame"
          cell,     \* the queue
          hist,     \* sequence of [n |-> node, k |-> kind, deps |-> reported set]
          pending,  \* result of into_pending_dependencies once taken
          qphase    \* "run" | "done"
qvars == <<inst, cell, hist, pending, qphase>>

QInit(i) == /\ inst = i /\ cell = NewCell(i) /\ hist = <<>> /\ pending = {} /\ qphase = "run"

Record(node, kind) ==
    /\ qphase = "run" /\ kind \in KindsOf(inst)
    /\ hist' = Append(hist, [n |-> node, k |-> kind, deps |-> Deps(inst, cell, kind)])
    /\ cell' = After(cell, node, kind)
    /\ UNCHANGED <<inst, pending, qphase>>

TakePending ==
    /\ qphase = "run" /\ qphase' = "done"
    /\ pending' = PendingOf(inst, [cell EXCEPT !.on = TRUE])
    /\ UNCHANGED <<inst, cell, hist>>

----------------------------------------------------------------------------
DepsExact        == QDepsExactOf(inst, hist)
ConflictsOrdered == QConflictsOrderedOf(hist)
ReadsUnordered   == QReadsUnorderedOf(hist)
DepsEarlier      == QDepsEarlierOf(inst, hist)
DepsJustified    == QDepsJustifiedOf(inst, hist)
PendingExact     == qphase = "done" => pending = ExpectedPending(inst, hist)
\* the cell itself: last writer and the reads since (the representation invariant of the queue)
CellExact ==
    LET g == LastWriteBefore(hist, Len(hist) + 1) IN
    /\ (g = 0 => cell.write = NewCell(inst).write)
    /\ (g # 0 => cell.write = [t |-> hist[g].k, n |-> hist[g].n])
    /\ cell.reads = {hist[q].n : q \in {q \in (g + 1)..Len(hist) : ~IsW(hist, q)}}
=============================================================================
