----------------------------- MODULE NumLiteral -----------------------------
(***************************************************************************)
(* Numeric literals of quil-rs (property C05):                             *)
(*   parser/lexer/mod.rs   lex_number, lex_decimal_number, raw_lex_integer *)
(*   parser/common.rs      parse_signed_integer / parse_signed_real (sign  *)
(*                         and range of operands), token!(Integer) users   *)
(*   parser/expression.rs  parse_immediate_value (integer -> real)         *)
(*                                                                         *)
(* A literal is a sequence of one-character strings.  The lexer is a       *)
(* character automaton: one `LexChar` action per character of the token    *)
(* (radix prefix, digits, `_` separators, fraction, exponent), `LexEnd`    *)
(* when the token ends.  Its accumulators are exact: TLC integers are      *)
(* 32-bit, so naturals are little-endian limb sequences in base 10 000.    *)
(*                                                                         *)
(* The property is stated next to the automaton and independently of it:   *)
(* `MathInt`/`MathFloat` give the mathematical value of the spelling by    *)
(* positional notation (sum of digit * radix^k, a right-to-left recursion  *)
(* with explicit powers, no shared code with the automaton's Horner        *)
(* scheme), `Expected(position)` says, per operand position of the         *)
(* grammar, whether that value is representable there.                     *)
(***************************************************************************)
EXTENDS Abs, TLC

\* ------------------------------------------------------------------ exact naturals
B == 10000
RECURSIVE MulAdd(_, _, _)
MulAdd(x, m, carry) ==                       \* x * m + carry   (m <= 16, carry < B)
  IF x = <<>> THEN (IF carry = 0 THEN <<>> ELSE <<carry>>)
  ELSE LET v == Head(x) * m + carry IN <<v % B>> \o MulAdd(Tail(x), m, v \div B)
RECURSIVE AddC(_, _, _)
AddC(x, y, c) ==                              \* x + y + c
  IF x = <<>> /\ y = <<>> THEN (IF c = 0 THEN <<>> ELSE <<c>>)
  ELSE LET a == IF x = <<>> THEN 0 ELSE Head(x)
           b == IF y = <<>> THEN 0 ELSE Head(y)
           v == a + b + c
       IN <<v % B>> \o AddC(IF x = <<>> THEN <<>> ELSE Tail(x), IF y = <<>> THEN <<>> ELSE Tail(y), v \div B)
Add(x, y) == AddC(x, y, 0)
RECURSIVE Trim(_)
Trim(x) == IF x = <<>> THEN <<>> ELSE IF x[Len(x)] = 0 THEN Trim(SubSeq(x, 1, Len(x) - 1)) ELSE x
Less(x, y) ==                                 \* x < y on trimmed limbs
  IF Len(x) # Len(y) THEN Len(x) < Len(y)
  ELSE LET RECURSIVE Cmp(_)
           Cmp(k) == IF k = 0 THEN FALSE ELSE IF x[k] # y[k] THEN x[k] < y[k] ELSE Cmp(k - 1)
       IN Cmp(Len(x))
Leq(x, y) == x = y \/ Less(x, y)
Zero == <<>>
RECURSIVE PowBig(_, _)
PowBig(r, k) == IF k = 0 THEN <<1>> ELSE MulAdd(PowBig(r, k - 1), r, 0)
\* number of decimal digits of a trimmed natural (0 has none)
DigitsOfLimb(v) == IF v >= 1000 THEN 4 ELSE IF v >= 100 THEN 3 ELSE IF v >= 10 THEN 2 ELSE IF v >= 1 THEN 1 ELSE 0
NumDigits(x) == IF x = <<>> THEN 0 ELSE 4 * (Len(x) - 1) + DigitsOfLimb(x[Len(x)])

Two63 == <<5808, 5477, 368, 3372, 922>>      \* 9223372036854775808
Two64 == <<1616, 955, 737, 6744, 1844>>      \* 18446744073709551616
\* 17 leading digits of 2^1024 - 2^970 (everything at or above rounds to infinity)
DblMaxTop == <<3158, 4862, 9313, 7976, 1>>    \* 17976931348623158

\* ------------------------------------------------------------------ characters
Dec == {"0","1","2","3","4","5","6","7","8","9"}
HexLo == {"a","b","c","d","e","f"}
HexUp == {"A","B","C","D","E","F"}
DigitVal(c) ==
  CASE c = "0" -> 0 [] c = "1" -> 1 [] c = "2" -> 2 [] c = "3" -> 3 [] c = "4" -> 4 [] c = "5" -> 5 [] c = "6" -> 6
    [] c = "7" -> 7 [] c = "8" -> 8 [] c = "9" -> 9 [] c \in {"a","A"} -> 10 [] c \in {"b","B"} -> 11
    [] c \in {"c","C"} -> 12 [] c \in {"d","D"} -> 13 [] c \in {"e","E"} -> 14 [] c \in {"f","F"} -> 15
IsDigitOf(c, r) == c \in (Dec \cup HexLo \cup HexUp) /\ DigitVal(c) < r
RadixOfPrefix(c) == CASE c \in {"b","B"} -> 2 [] c \in {"o","O"} -> 8 [] c \in {"x","X"} -> 16 [] OTHER -> 0

\* ------------------------------------------------------------------ the lexer automaton
VARIABLES chars,    \* the spelling (input)
          sign,     \* "" | "-" | "+" : the operator token written in front of the literal
          phase,    \* "gen" | "lex" | "done"
          i,        \* next character to read
          st,       \* automaton state
          radix, mant, ndig, nfrac, ipart, eneg, eabs, edig, budget, free
lexvars == <<i, st, radix, mant, ndig, nfrac, ipart, eneg, eabs, edig>>
vars == <<chars, sign, phase, lexvars, budget, free>>

LexInit == /\ i = 1 /\ st = "start" /\ radix = 10 /\ mant = Zero /\ ndig = 0 /\ nfrac = 0
           /\ ipart = Zero /\ eneg = FALSE /\ eabs = 0 /\ edig = 0

ExpCap == 100000   \* exponent magnitudes saturate here (far beyond any finite double)

\* st: "start" nothing read | "zero" a single leading 0 | "int" decimal integer part | "pint" digits after 0b/0o/0x
\*     "frac" after the point | "esign" right after e/E | "exp" exponent digits | "stop" the token ended before chars did
LexChar ==
  /\ phase = "lex" /\ i <= Len(chars) /\ st # "stop"
  /\ LET c == chars[i]
         digit(r) == /\ mant' = MulAdd(mant, r, DigitVal(c)) /\ ndig' = ndig + 1
         keep == UNCHANGED <<mant, ndig>>
     IN
     CASE st \in {"start", "zero", "int"} /\ c \in Dec ->
            /\ digit(10) /\ st' = (IF st = "start" /\ c = "0" THEN "zero" ELSE "int")
            /\ UNCHANGED <<radix, nfrac, ipart, eneg, eabs, edig>>
       [] st = "zero" /\ RadixOfPrefix(c) # 0 ->           \* peek(tag_no_case("0x")) then cut(...)
            /\ radix' = RadixOfPrefix(c) /\ st' = "pint" /\ mant' = Zero /\ ndig' = 0
            /\ UNCHANGED <<nfrac, ipart, eneg, eabs, edig>>
       [] st \in {"zero", "int", "pint", "exp", "esign"} /\ c = "_" ->   \* internal / trailing / consecutive separators
            /\ keep /\ st' = (IF st = "zero" THEN "int" ELSE st)         \* `0_x1` is not a prefix any more
            /\ UNCHANGED <<radix, nfrac, ipart, eneg, eabs, edig>>
       [] st = "frac" /\ c = "_" /\ chars[i - 1] # "." ->   \* `._` is refused (fraction-leading separator)
            /\ keep /\ UNCHANGED <<st, radix, nfrac, ipart, eneg, eabs, edig>>
       [] st = "pint" /\ IsDigitOf(c, radix) ->
            /\ digit(radix) /\ UNCHANGED <<st, radix, nfrac, ipart, eneg, eabs, edig>>
       [] st \in {"start", "zero", "int"} /\ c = "." ->
            /\ st' = "frac" /\ ipart' = mant /\ keep /\ UNCHANGED <<radix, nfrac, eneg, eabs, edig>>
       [] st = "frac" /\ c \in Dec ->
            /\ digit(10) /\ nfrac' = nfrac + 1 /\ UNCHANGED <<st, radix, ipart, eneg, eabs, edig>>
       [] st \in {"zero", "int", "frac"} /\ c \in {"e", "E"} /\ ndig > 0 ->
            /\ st' = "esign" /\ ipart' = (IF st = "frac" THEN ipart ELSE mant) /\ keep
            /\ UNCHANGED <<radix, nfrac, eneg, eabs, edig>>
       [] st = "esign" /\ c \in {"+", "-"} /\ chars[i - 1] \in {"e", "E"} ->
            /\ eneg' = (c = "-") /\ keep /\ UNCHANGED <<st, radix, nfrac, ipart, eabs, edig>>
       [] st \in {"esign", "exp"} /\ c \in Dec ->
            /\ st' = "exp" /\ edig' = edig + 1
            /\ eabs' = (IF eabs * 10 + DigitVal(c) > ExpCap THEN ExpCap ELSE eabs * 10 + DigitVal(c))
            /\ keep /\ UNCHANGED <<radix, nfrac, ipart, eneg>>
       [] OTHER -> st' = "stop" /\ UNCHANGED <<radix, mant, ndig, nfrac, ipart, eneg, eabs, edig>>
  /\ i' = (IF st' = "stop" THEN i ELSE i + 1)
  /\ UNCHANGED <<chars, sign, phase, budget, free>>

\* the token is complete; `sg` is the operator token the operand parser finds in front of it
LexEnd(sg) == /\ phase = "lex" /\ (i > Len(chars) \/ st = "stop")
              /\ phase' = "done" /\ sign' = sg /\ UNCHANGED <<chars, lexvars, budget, free>>

\* ---- what the automaton found (meaningful when phase = "done")
Single    == i > Len(chars) /\ st # "stop"                   \* the whole spelling is one token
IsFloatSt == st \in {"frac", "esign", "exp"}
WellLexed == /\ Single
             /\ IF st = "pint" THEN Len(chars) > 2            \* as built: `0b_` is read as 0 (lexical 7), `0b` is refused
                ELSE ndig > 0                                 \* mantissa digits are required
             /\ st # "esign"                                  \* `1e` : exponent digits are required
Exp10     == (IF eneg THEN 0 - eabs ELSE eabs) - nfrac        \* value = mant * 10^Exp10 for floats

TimesPow10(x, k) == LET RECURSIVE Go(_, _)
                        Go(y, n) == IF n = 0 THEN y ELSE Go(MulAdd(y, 10, 0), n - 1)
                    IN Go(x, k)
\* does the decimal m * 10^e10 round to a finite double?  (exact except within 1e-17 of the threshold)
FloatFinite(m, e10) ==
  LET t == Trim(m) nd == NumDigits(t) mag == nd + e10 IN
  IF t = Zero THEN TRUE
  ELSE IF mag > 309 THEN FALSE
  ELSE IF mag < 309 THEN TRUE
  ELSE IF nd <= 17 THEN Less(TimesPow10(t, 17 - nd), DblMaxTop)
       ELSE Less(t, TimesPow10(DblMaxTop, nd - 17))

\* the as-built lexer: integer tokens are u64; a decimal float is first read as a u64 integer up to the
\* point/exponent (so an integer part >= 2^64 is refused even for a real), and must be finite
LexAccepts ==
  /\ WellLexed
  /\ IF IsFloatSt THEN (Less(Trim(ipart), Two64) /\ FloatFinite(mant, Exp10))
     ELSE Less(Trim(mant), Two64)

\* ------------------------------------------------------------------ operand positions
\* domain of a position:  "signed"    optional minus; integer -> i64, real -> f64        (parse_arithmetic_operand,
\*                                                                                         parse_comparison_operand)
\*                        "signedint" optional minus; integer -> i64, no reals            (parse_binary_logic_operand)
\*                        "unsigned"  token!(Integer) -> u64, no sign, no reals
\*                        "expr"      parse_expression: optional prefix minus, every literal becomes an f64
\*                        "imm"       parse_immediate_value without a prefix (CALL arguments)
PosDom == [MOVE |-> "signed", ADD |-> "signed", EQ |-> "signed", STORE |-> "signed", AND |-> "signedint",
           QUBIT |-> "unsigned", MEMIDX |-> "unsigned", DECLLEN |-> "unsigned", OFFSET |-> "unsigned",
           PRAGMA |-> "unsigned", PERM |-> "unsigned", MEASURE |-> "unsigned",
           GATEPARAM |-> "expr", IMAG |-> "expr", DELAY |-> "expr", WFPARAM |-> "expr", SETPHASE |-> "expr",
           FRAMEATTR |-> "expr", WFMATRIX |-> "expr", GATEMATRIX |-> "expr", RAWCAPTURE |-> "expr",
           CALL |-> "imm"]
Doms == {"signed", "signedint", "unsigned", "expr", "imm"}

Reject == [r |-> "reject"]
IntVal(neg, m) == [r |-> "int", neg |-> neg, mag |-> m]
RealVal(neg, m, e) == [r |-> "real", neg |-> neg, mant |-> m, e10 |-> e]
FitsI64(neg, m) == IF neg THEN Leq(Trim(m), Two63) ELSE Less(Trim(m), Two63)

\* the model parser: what the operand parser of each domain yields for (sign, token)
Expected(dom) ==
  IF ~LexAccepts THEN Reject
  ELSE LET neg == sign = "-" IN
  CASE dom = "signed" ->
         IF sign = "+" THEN Reject
         ELSE IF IsFloatSt THEN RealVal(neg, mant, Exp10)
         ELSE IF FitsI64(neg, mant) THEN IntVal(neg, mant) ELSE Reject
    [] dom = "signedint" ->
         IF sign = "+" \/ IsFloatSt THEN Reject
         ELSE IF FitsI64(neg, mant) THEN IntVal(neg, mant) ELSE Reject
    [] dom = "unsigned" -> IF sign # "" \/ IsFloatSt THEN Reject ELSE IntVal(FALSE, mant)
    [] dom = "expr" -> IF sign = "+" THEN Reject ELSE RealVal(neg, mant, IF IsFloatSt THEN Exp10 ELSE 0)
    [] dom = "imm"  -> IF sign # "" THEN Reject ELSE RealVal(FALSE, mant, IF IsFloatSt THEN Exp10 ELSE 0)

----------------------------------------------------------------------------
\* The property (C05), stated on the spelling alone: grammar of literals and their mathematical value.

NotSep(c) == c # "_"
NoSep(s) == SelectSeq(s, NotSep)
FirstIdx(s, S) == IF \E k \in DOMAIN s : s[k] \in S THEN Min({k \in DOMAIN s : s[k] \in S}) ELSE 0
AllIn(s, S) == \A k \in DOMAIN s : s[k] \in S
Sub(s, a, b) == IF a > b THEN <<>> ELSE SubSeq(s, a, b)

Prefixed(s) == Len(s) >= 2 /\ s[1] = "0" /\ RadixOfPrefix(s[2]) # 0
PRadix(s)   == RadixOfPrefix(s[2])
PDigits(s)  == NoSep(Sub(s, 3, Len(s)))
DotAt(s)    == FirstIdx(s, {"."})
EAt(s)      == FirstIdx(s, {"e", "E"})
IntEnd(s)   == IF DotAt(s) # 0 THEN DotAt(s) - 1 ELSE IF EAt(s) # 0 THEN EAt(s) - 1 ELSE Len(s)
IntDigits(s)  == NoSep(Sub(s, 1, IntEnd(s)))
FracDigits(s) == IF DotAt(s) = 0 THEN <<>> ELSE NoSep(Sub(s, DotAt(s) + 1, IF EAt(s) # 0 THEN EAt(s) - 1 ELSE Len(s)))
ExpPart(s)    == IF EAt(s) = 0 THEN <<>> ELSE Sub(s, EAt(s) + 1, Len(s))
ExpSigned(s)  == ExpPart(s) # <<>> /\ Head(ExpPart(s)) \in {"+", "-"}
ExpDigits(s)  == NoSep(IF ExpSigned(s) THEN Tail(ExpPart(s)) ELSE ExpPart(s))
IsFloatSpelling(s) == ~Prefixed(s) /\ (DotAt(s) # 0 \/ EAt(s) # 0)

\* the documented literal grammar (number_format in lexer/mod.rs): radix prefixes in either case, `_` anywhere
\* except in front of the first digit and right after the point, optional fraction, optional signed exponent with
\* at least one digit, at least one mantissa digit
Grammatical(s) ==
  /\ s # <<>> /\ s[1] # "_"
  /\ IF Prefixed(s)
     THEN /\ Len(s) > 2
          /\ \A k \in 3..Len(s) : s[k] = "_" \/ IsDigitOf(s[k], PRadix(s))
     ELSE /\ AllIn(IntDigits(s), Dec) /\ AllIn(FracDigits(s), Dec)
          /\ AllIn(Sub(s, 1, IntEnd(s)), Dec \cup {"_"})
          /\ (DotAt(s) # 0 => /\ (EAt(s) = 0 \/ DotAt(s) < EAt(s))
                              /\ AllIn(Sub(s, DotAt(s) + 1, IF EAt(s) # 0 THEN EAt(s) - 1 ELSE Len(s)), Dec \cup {"_"})
                              /\ (DotAt(s) < Len(s) => s[DotAt(s) + 1] # "_"))
          /\ Len(IntDigits(s)) + Len(FracDigits(s)) > 0
          /\ (EAt(s) # 0 => /\ ExpDigits(s) # <<>> /\ AllIn(ExpDigits(s), Dec)
                            /\ AllIn(IF ExpSigned(s) THEN Tail(ExpPart(s)) ELSE ExpPart(s), Dec \cup {"_"}))

\* positional value: sum of digit * radix^k, from the least significant digit with a running power
RECURSIVE PosFrom(_, _, _, _, _)
PosFrom(ds, r, k, pw, acc) == IF k = 0 THEN acc
                              ELSE PosFrom(ds, r, k - 1, MulAdd(pw, r, 0), Add(acc, MulAdd(pw, DigitVal(ds[k]), 0)))
PosValue(ds, r) == PosFrom(ds, r, Len(ds), <<1>>, Zero)
RECURSIVE SmallVal(_, _)
SmallVal(ds, acc) == IF ds = <<>> THEN acc
                     ELSE SmallVal(Tail(ds), IF acc * 10 + DigitVal(Head(ds)) > ExpCap THEN ExpCap ELSE acc * 10 + DigitVal(Head(ds)))

MathIsFloat(s) == IsFloatSpelling(s)
MathMant(s) == Trim(IF Prefixed(s) THEN PosValue(PDigits(s), PRadix(s)) ELSE PosValue(IntDigits(s) \o FracDigits(s), 10))
MathE10(s)  == IF ~IsFloatSpelling(s) THEN 0
               ELSE (IF ExpSigned(s) /\ Head(ExpPart(s)) = "-" THEN 0 - SmallVal(ExpDigits(s), 0) ELSE SmallVal(ExpDigits(s), 0))
                    - Len(FracDigits(s))

\* a value the code may return for the spelling `s` written after `sg` in a position of domain `dom`:
\* the mathematical value, in the right kind, representable in the domain
ValueAllowed(dom, sg, s, v) ==
  /\ Grammatical(s) /\ sg # "+"
  /\ v.neg = (sg = "-")
  /\ IF v.r = "int"
     THEN /\ ~MathIsFloat(s) /\ Trim(v.mag) = MathMant(s)
          /\ dom \in {"signed", "signedint", "unsigned"}
          /\ (dom = "unsigned" => sg = "" /\ Less(MathMant(s), Two64))
          /\ (dom # "unsigned" => FitsI64(v.neg, MathMant(s)))
     ELSE /\ Trim(v.mant) = MathMant(s)
          /\ v.e10 = MathE10(s)
          /\ (dom = "signed" => MathIsFloat(s))                 \* an integer spelling never turns into a real operand
          /\ dom \in {"signed", "expr", "imm"} /\ (dom = "imm" => sg = "")

\* invariants ------------------------------------------------------------------
\* the automaton accepts exactly the grammar ...
AutomatonGrammar == phase = "done" => (WellLexed <=> Grammatical(chars))
\* ... and accumulates exactly the mathematical value (Horner scheme vs positional sum)
AutomatonExact == (phase = "done" /\ WellLexed) =>
                     /\ mant = MathMant(chars) /\ IsFloatSt = MathIsFloat(chars)
                     /\ (IsFloatSt => Exp10 = MathE10(chars))
\* C05 on the model parser: every position either rejects or yields the mathematical value in the right kind
RejectOrExact == phase = "done" => \A d \in Doms : Expected(d).r # "reject" => ValueAllowed(d, sign, chars, Expected(d))
\* mantissa accumulator stays normalised (no leading zero limbs), counters consistent
AccumulatorSane == /\ mant = Trim(mant) /\ ndig >= nfrac /\ (st = "exp" => edig > 0)
                   /\ (phase = "lex" => i <= Len(chars) + 1)
=============================================================================
