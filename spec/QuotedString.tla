---------------------------- MODULE QuotedString ----------------------------
(***************************************************************************)
(* Quoted strings of quil-rs, at character level.                          *)
(*                                                                         *)
(*   printer : `QuotedString` display      (instruction/mod.rs:440-457)    *)
(*   lexer   : `surrounded('"','"',true)`  (parser/lexer/quoted_strings.rs *)
(*             :54-92) -- a loop over the characters with one boolean      *)
(*             `is_escaped`; here a genuine state machine, one `LexChar`   *)
(*             action per loop iteration, `Close` = the `return Ok(..)`    *)
(*             arm, `Eof` = falling out of the loop                        *)
(*   unescape: `unescaped_quoted_string`   (quoted_strings.rs:27-31) --    *)
(*             the two *sequential* `str::replace` passes the code         *)
(*             performs (not an idealised decoder, so that an ordering bug *)
(*             of the passes is visible)                                   *)
(*                                                                         *)
(* TLC strings are atomic, so a text is a sequence of one-character        *)
(* strings; the harness joins / splits them.                               *)
(*                                                                         *)
(* The property (C07) is stated next to the transcription and independent  *)
(* of it: whatever string `s` is printed and whatever follows the closing  *)
(* quote, the lexer returns exactly `s` and leaves exactly the             *)
(* continuation.                                                           *)
(***************************************************************************)
EXTENDS Naturals, Sequences, FiniteSets, TLC

Q  == "\""
BS == "\\"

\* Deviation switches (all FALSE in the shipped configurations).  Each reproduces one small edit of
\* quil-rs that breaks the property; TLC then produces the counterexample (cfgs under spec/mc/findings).
CONSTANTS RawPrint,        \* print the string between quotes without escaping (the DELAY writer before
                           \* commit "fix: escape DELAY frame names like every other quoted string")
          SwapPasses,      \* run the `\\` pass before the `\"` pass in unescaped_quoted_string.  (TLC shows this edit is
                           \* harmless on printed text: both orders invert EscBody for every string up to length 5;
                           \* kept as a documented non-finding)
          NoBackslashEsc   \* QuotedString display that escapes the quote but not the backslash

---------------------------------------------------------------------------
\* printer

EscChar(c) == IF c = Q THEN <<BS, Q>>
              ELSE IF c = BS /\ ~NoBackslashEsc THEN <<BS, BS>>
              ELSE <<c>>

RECURSIVE EscBody(_)
EscBody(s) == IF s = <<>> THEN <<>> ELSE EscChar(Head(s)) \o EscBody(Tail(s))

Escape(s) == <<Q>> \o (IF RawPrint THEN s ELSE EscBody(s)) \o <<Q>>

---------------------------------------------------------------------------
\* unescape: str::replace(from, to) for a two-character pattern -- leftmost, non-overlapping

RECURSIVE Replace2(_, _, _, _)
Replace2(s, a, b, by) ==
  IF Len(s) < 2 THEN s
  ELSE IF s[1] = a /\ s[2] = b THEN <<by>> \o Replace2(SubSeq(s, 3, Len(s)), a, b, by)
       ELSE <<s[1]>> \o Replace2(Tail(s), a, b, by)

Unescape(inner) ==
  IF SwapPasses THEN Replace2(Replace2(inner, BS, BS, BS), BS, Q, Q)
  ELSE Replace2(Replace2(inner, BS, Q, Q), BS, BS, BS)

\* the idealised one-pass decoder (declarative counterpart): a backslash makes the next character literal
RECURSIVE Decode(_)
Decode(inner) ==
  IF inner = <<>> THEN <<>>
  ELSE IF Head(inner) = BS /\ Len(inner) >= 2 /\ inner[2] \in {Q, BS}
       THEN <<inner[2]>> \o Decode(SubSeq(inner, 3, Len(inner)))
       ELSE <<Head(inner)>> \o Decode(Tail(inner))

---------------------------------------------------------------------------
\* the lexer loop as a recursive function (used by other modules and by the trace spec)

RECURSIVE Scan(_, _, _)
Scan(txt, pos, esc) ==      \* index of the closing quote, or 0
  IF pos > Len(txt) THEN 0
  ELSE LET c == txt[pos] IN
       IF c = BS THEN Scan(txt, pos + 1, ~esc)
       ELSE IF esc THEN Scan(txt, pos + 1, FALSE)
       ELSE IF c = Q THEN pos
       ELSE Scan(txt, pos + 1, esc)

LexString(txt) ==   \* txt starts at the opening quote
  IF txt = <<>> \/ txt[1] # Q THEN [ok |-> FALSE, val |-> <<>>, rest |-> txt]
  ELSE LET e == Scan(txt, 2, FALSE) IN
       IF e = 0 THEN [ok |-> FALSE, val |-> <<>>, rest |-> txt]
       ELSE [ok |-> TRUE, val |-> Unescape(SubSeq(txt, 2, e - 1)), rest |-> SubSeq(txt, e + 1, Len(txt))]

---------------------------------------------------------------------------
\* the lexer loop as a state machine

VARIABLES s,      \* the string value held by the program
          rest,   \* what follows the closing quote in the program text
          txt,    \* the text handed to the lexer: Escape(s) \o rest
          pos,    \* the loop's position (1-based index of the next character)
          esc,    \* is_escaped
          phase,  \* "gen" | "lex" | "closed" | "eof"
          printed \* TRUE: txt is Escape(s) \o rest (what the printer wrote); FALSE: txt is an arbitrary text that
                  \* starts with a quote (the lexer on input the printer did not produce: it may run into the end)
vars == <<s, rest, txt, pos, esc, phase, printed>>

LexInit(str, cont) == /\ s = str /\ rest = cont /\ txt = Escape(str) \o cont
                      /\ pos = 2 /\ esc = FALSE /\ printed = TRUE

LexChar ==
  /\ phase = "lex" /\ pos <= Len(txt)
  /\ LET c == txt[pos] IN
       /\ ~(c # BS /\ ~esc /\ c = Q)          \* that is the Close arm
       /\ esc' = IF c = BS THEN ~esc ELSE FALSE
  /\ pos' = pos + 1 /\ UNCHANGED <<s, rest, txt, phase, printed>>

Close ==
  /\ phase = "lex" /\ pos <= Len(txt) /\ txt[pos] = Q /\ ~esc
  /\ phase' = "closed" /\ UNCHANGED <<s, rest, txt, pos, esc, printed>>

Eof ==
  /\ phase = "lex" /\ pos > Len(txt)
  /\ phase' = "eof" /\ UNCHANGED <<s, rest, txt, pos, esc, printed>>

\* result of the lexer in a closed state
Inner  == SubSeq(txt, 2, pos - 1)
Value  == Unescape(Inner)
Remain == SubSeq(txt, pos + 1, Len(txt))

---------------------------------------------------------------------------
\* The property and its supporting invariants

\* C07: the string survives, and the lexer stops exactly at the closing quote
RoundTrip == (phase = "closed" /\ printed) => (Value = s /\ Remain = rest)
\* the printed text always has a closing quote the lexer finds
NeverEof  == printed => phase # "eof"
\* the step machine and the recursive function are the same lexer
ScanAgrees == /\ phase = "closed" => Scan(txt, 2, FALSE) = pos
              /\ phase = "eof" => Scan(txt, 2, FALSE) = 0
\* loop invariant: is_escaped is the parity of the backslash run that ends just before pos
RECURSIVE TrailingBS(_, _)
TrailingBS(t, p) == IF p >= 1 /\ t[p] = BS THEN 1 + TrailingBS(t, p - 1) ELSE 0
EscParity == phase = "lex" => (esc <=> (TrailingBS(txt, pos - 1) % 2 = 1))
\* loop invariant: the lexer never runs past the printed string into the continuation
InsideString == (phase = "lex" /\ printed) => pos <= Len(Escape(s))
\* pure-function forms (evaluated once per generated s)
UnescapeInverts == phase = "gen" => Unescape(EscBody(s)) = s
TwoPassIsDecode == phase = "gen" => Decode(EscBody(s)) = Unescape(EscBody(s))
\* the escaped body never contains an unescaped quote, and never ends in an odd run of backslashes
BodyClosed == phase = "gen" => LET b == EscBody(s) IN TrailingBS(b, Len(b)) % 2 = 0
=============================================================================
