------------------------------ MODULE CalExpand ------------------------------
(***************************************************************************)
(* Calibration expansion of quil-rs as an explicit stack machine:          *)
(*                                                                         *)
(*   Program::expand_calibrations_inner          (the loop over the body)  *)
(*   Calibrations::expand_inner                  (Call, Reject, Match)     *)
(*   Calibrations::recursively_expand_inner      (the loop over a matched  *)
(*                                                body: Call ... Return)   *)
(*   Program::append_calibration_expansion_output_inner   (Hoist, HoistEnd)*)
(*        quil-rs/src/program/calibration.rs, quil-rs/src/program/mod.rs   *)
(*                                                                         *)
(* The recursion of the code is made explicit: one frame per active call   *)
(* of recursively_expand_inner, holding the instruction being expanded     *)
(* (the breadcrumb), the matched calibration, its instantiated body, the   *)
(* loop position, and the locals new_instructions / expansions.            *)
(* One action is one hook-observable step or one loop iteration, so that   *)
(* termination (C18) is a temporal property of this machine and the stack  *)
(* discipline can be validated against recorded runs (CalExpandTrace).     *)
(*                                                                         *)
(* Next to the machine stands the declarative reference ExpandFix (what    *)
(* the statement of C17 says the result is), by structural recursion.      *)
(***************************************************************************)
EXTENDS CalibrationRules, SourceMapAlgebra

CONSTANT MaxDepth      \* bound on the nesting depth explored (state constraint + fuel of ExpandFix)

VARIABLES gc,        \* gate calibrations (a CalibrationSet: sequence in insertion order)
          mc,        \* measurement calibrations
          src,       \* the program body
          withMap,   \* TRUE: expand_calibrations_with_source_map, FALSE: expand_calibrations
          m          \* the machine (a record, see MInit)
evars == <<gc, mc, src, withMap, m>>

----------------------------------------------------------------------------
\* Matching and instantiation (expand_inner, the two `match` arms)

NoCal == [kind |-> "none", i |-> 0]
GCal(n) == [kind |-> "g", i |-> n]
MCal(n) == [kind |-> "m", i |-> n]

MatchIn(g, mm, i) ==
  IF i.k = "Gate" THEN (LET n == BestMatch(g, i) IN IF n = 0 THEN NoCal ELSE GCal(n))
  ELSE IF i.k = "Measure" THEN (LET n == MeasBest(mm, i) IN IF n = 0 THEN NoCal ELSE MCal(n))
  ELSE NoCal

\* variable name -> what it is bound to; a name bound twice keeps the last binding (HashMap::insert / collect)
QEnv(cq, gq) == LET names == {cq[n].s : n \in {x \in DOMAIN cq : cq[x].t = "var"}} IN
                [s \in names |-> gq[Max({n \in DOMAIN cq : cq[n] = QVar(s)})]]
PEnv(cp, gp) == LET names == {cp[n].v : n \in {x \in DOMAIN cp : cp[x].t = "var"}} IN
                [v \in names |-> gp[Max({n \in DOMAIN cp : cp[n] = EVar(v)})]]

SubstQ(q, env) == IF q.t = "var" /\ q.s \in DOMAIN env THEN env[q.s] ELSE q

\* "with the gate's qubits and parameters substituted for the calibration's variables": every qubit and
\* every expression of every body instruction, whatever its kind
SubstInstr(b, qenv, penv) ==
  [b EXCEPT !.qubits = [n \in DOMAIN b.qubits |-> SubstQ(b.qubits[n], qenv)],
            !.params = [n \in DOMAIN b.params |-> SubstE(b.params[n], penv)]]

MRefText(r) == r.name \o "[" \o ToString(r.index) \o "]"

\* "for a measurement, its qubit replaces the qubit variable and its target replaces uses of the target
\* name, and other memory references stay as written" (uses of the target name: the memory reference of
\* CAPTURE / RAW-CAPTURE and the data of PRAGMA LOAD-MEMORY)
Retarget(b, c, meas) ==
  IF IsNone(meas.mref) THEN b
  ELSE IF b.k = "Pragma" /\ b.name = "LOAD-MEMORY" /\ b.data = c.target
       THEN [b EXCEPT !.data = MRefText(meas.mref.some)]
       ELSE IF b.k \in {"Capture", "RawCapture"} /\ c.target # "" /\ b.mref.some.name = c.target
            THEN [b EXCEPT !.mref = meas.mref]
            ELSE b

InstBody(g, mm, cal, i) ==
  IF cal.kind = "g"
  THEN LET c == g[cal.i]
           qenv == QEnv(c.qubits, i.qubits)
           penv == PEnv(c.params, i.params) IN
       [n \in DOMAIN c.body |-> SubstInstr(c.body[n], qenv, penv)]
  ELSE LET c == mm[cal.i]
           qenv == IF c.qubit.t = "var" THEN (c.qubit.s :> i.qubits[1]) ELSE <<>>
       IN [n \in DOMAIN c.body |-> Retarget(SubstInstr(c.body[n], qenv, <<>>), c, i)]

\* Program::add_instruction does not put these into the body (only DECLARE is generated)
Hoisted(i) == i.k = "Declare"
\* memory_regions is keyed by name: a second DECLARE of a name replaces the first in place
AddDecl(ds, i) == IF \E n \in DOMAIN ds : ds[n].name = i.name THEN ds ELSE Append(ds, i)

----------------------------------------------------------------------------
\* The machine

Frame(i, cal, body) == [instr |-> i, cal |-> cal, body |-> body, next |-> 1, new |-> <<>>, entries |-> <<>>]
NoRet == [instrs |-> <<>>, d |-> Detail(NoCal, 0, 0, <<>>), j |-> 1, base |-> 0]

MInit == [status |-> "run",      \* "run" | "done" | "recursive"
          k |-> 1,               \* position of the loop of expand_calibrations_inner in src (1-based)
          pc |-> "idle",         \* "idle" | "entered" (inside expand_inner, before the breadcrumb check) | "hoist"
          cur |-> Nop,           \* the instruction expand_inner was called with
          stack |-> <<>>,        \* frames of recursively_expand_inner, outermost first
          ret |-> NoRet,         \* the expansion output being appended to the program (pc = "hoist")
          out |-> <<>>,          \* body of the new program
          decls |-> <<>>,        \* declarations hoisted out of expansions, in order
          map |-> <<>>,          \* the program-level source map
          maxDepth |-> 0]        \* deepest stack seen

Top(mm) == mm.stack[Len(mm.stack)]
Crumbs(mm) == {mm.stack[n].instr : n \in DOMAIN mm.stack}       \* previous_calibrations

\* ---- expand_inner is called (the loop of expand_calibrations_inner, or of recursively_expand_inner)
CanCall(mm) == /\ mm.status = "run" /\ mm.pc = "idle"
               /\ IF mm.stack = <<>> THEN mm.k <= Len(src) ELSE Top(mm).next <= Len(Top(mm).body)
DoCall(mm) == [mm EXCEPT !.cur = IF mm.stack = <<>> THEN src[mm.k] ELSE Top(mm).body[Top(mm).next],
                         !.pc = "entered"]

\* ---- previous_calibrations.contains(instruction): Err(RecursiveCalibration)
CanReject(mm) == mm.status = "run" /\ mm.pc = "entered" /\ mm.cur \in Crumbs(mm)
DoReject(mm) == [mm EXCEPT !.status = "recursive"]

\* ---- the match arms, then recursively_expand_inner is entered (Some) or None is returned to the caller
CanMatch(mm) == mm.status = "run" /\ mm.pc = "entered" /\ mm.cur \notin Crumbs(mm)
DoMatch(mm) ==
  LET cal == MatchIn(gc, mc, mm.cur) IN
  IF cal # NoCal
  THEN [mm EXCEPT !.stack = Append(mm.stack, Frame(mm.cur, cal, InstBody(gc, mc, cal, mm.cur))),
                  !.pc = "idle",
                  !.maxDepth = IF Len(mm.stack) + 1 > mm.maxDepth THEN Len(mm.stack) + 1 ELSE mm.maxDepth]
  ELSE IF mm.stack = <<>>
       THEN \* expand_calibrations_inner, arm None: add_instruction + Unmodified entry
            [mm EXCEPT !.out = Append(mm.out, mm.cur),
                       !.map = IF withMap THEN Append(mm.map, Entry(mm.k - 1, Unmod(Len(mm.out)))) ELSE mm.map,
                       !.k = mm.k + 1, !.pc = "idle"]
       ELSE \* recursively_expand_inner, arm None: push the instruction + Unmodified entry
            LET n == Len(mm.stack) f == Top(mm) IN
            [mm EXCEPT !.stack[n].new = Append(f.new, mm.cur),
                       !.stack[n].entries = IF withMap THEN Append(f.entries, Entry(f.next - 1, Unmod(Len(f.new))))
                                            ELSE f.entries,
                       !.stack[n].next = f.next + 1, !.pc = "idle"]

\* ---- the loop of recursively_expand_inner is over: Some(output) goes back to the caller
CanReturn(mm) == /\ mm.status = "run" /\ mm.pc = "idle" /\ mm.stack # <<>>
                 /\ Top(mm).next > Len(Top(mm).body)
DoReturn(mm) ==
  LET n == Len(mm.stack)
      f == Top(mm)
      d == Detail(f.cal, 0, IF withMap THEN Len(f.new) ELSE 0, f.entries) IN
  IF n >= 2
  THEN \* caller is recursively_expand_inner, arm Some: extend, set the range, push a Rewritten entry
       LET p == mm.stack[n - 1]
           p2 == [p EXCEPT !.new = p.new \o f.new,
                           !.entries = IF withMap
                                       THEN Append(p.entries, Entry(p.next - 1,
                                              Rew([d EXCEPT !.from = Len(p.new), !.to = Len(p.new) + Len(f.new)])))
                                       ELSE p.entries,
                           !.next = p.next + 1] IN
       [mm EXCEPT !.stack = Append(SubSeq(mm.stack, 1, n - 2), p2)]
  ELSE \* caller is expand_calibrations_inner: append_calibration_expansion_output_inner starts
       [mm EXCEPT !.stack = <<>>, !.pc = "hoist",
                  !.ret = [instrs |-> f.new, d |-> d, j |-> 1, base |-> Len(mm.out)]]

\* ---- one iteration of the loop of append_calibration_expansion_output_inner
CanHoist(mm) == mm.status = "run" /\ mm.pc = "hoist" /\ mm.ret.j <= Len(mm.ret.instrs)
DoHoist(mm) ==
  LET i == mm.ret.instrs[mm.ret.j] IN
  IF Hoisted(i)
  THEN [mm EXCEPT !.decls = AddDecl(mm.decls, i),
                  !.ret.d = IF withMap THEN Remove(mm.ret.d, Len(mm.out) - mm.ret.base) ELSE mm.ret.d,
                  !.ret.j = mm.ret.j + 1]
  ELSE [mm EXCEPT !.out = Append(mm.out, i), !.ret.j = mm.ret.j + 1]

\* ---- after that loop: the range becomes absolute, the entry is pushed unless the range is empty
CanHoistEnd(mm) == mm.status = "run" /\ mm.pc = "hoist" /\ mm.ret.j > Len(mm.ret.instrs)
DoHoistEnd(mm) ==
  LET d2 == [mm.ret.d EXCEPT !.from = mm.ret.base, !.to = Len(mm.out)] IN
  [mm EXCEPT !.map = IF withMap /\ d2.from # d2.to THEN Append(mm.map, Entry(mm.k - 1, Rew(d2))) ELSE mm.map,
             !.k = mm.k + 1, !.pc = "idle", !.ret = NoRet]

\* ---- the loop over the body is over
CanFinish(mm) == mm.status = "run" /\ mm.pc = "idle" /\ mm.stack = <<>> /\ mm.k > Len(src)
DoFinish(mm) == [mm EXCEPT !.status = "done"]

Inputs == <<gc, mc, src, withMap>>
Call     == CanCall(m)     /\ m' = DoCall(m)     /\ UNCHANGED Inputs
Reject   == CanReject(m)   /\ m' = DoReject(m)   /\ UNCHANGED Inputs
Match    == CanMatch(m)    /\ m' = DoMatch(m)    /\ UNCHANGED Inputs
Return   == CanReturn(m)   /\ m' = DoReturn(m)   /\ UNCHANGED Inputs
Hoist    == CanHoist(m)    /\ m' = DoHoist(m)    /\ UNCHANGED Inputs
HoistEnd == CanHoistEnd(m) /\ m' = DoHoistEnd(m) /\ UNCHANGED Inputs
Finish   == CanFinish(m)   /\ m' = DoFinish(m)   /\ UNCHANGED Inputs
Step == Call \/ Reject \/ Match \/ Return \/ Hoist \/ HoistEnd \/ Finish

Terminal == m.status \in {"done", "recursive"}

----------------------------------------------------------------------------
\* The declarative reference (C17): what expansion *is*, by structural recursion on the instruction.

ResOk(is) == [ok |-> is]
ResErr    == [err |-> TRUE]        \* some instruction would be expanded while it is being expanded
ResDeep   == [deep |-> TRUE]       \* nesting deeper than the fuel (MaxDepth)
IsOk(r)   == "ok" \in DOMAIN r

RECURSIVE ExpInstr(_, _, _, _, _), ExpSeq(_, _, _, _, _)
ExpInstr(g, mm, i, active, fuel) ==
  IF i \in active THEN ResErr
  ELSE LET cal == MatchIn(g, mm, i) IN
       IF cal = NoCal THEN ResOk(<<i>>)
       ELSE IF fuel = 0 THEN ResDeep
            ELSE ExpSeq(g, mm, InstBody(g, mm, cal, i), active \cup {i}, fuel - 1)
ExpSeq(g, mm, is, active, fuel) ==
  IF is = <<>> THEN ResOk(<<>>)
  ELSE LET h == ExpInstr(g, mm, Head(is), active, fuel) IN
       IF ~IsOk(h) THEN h
       ELSE LET t == ExpSeq(g, mm, Tail(is), active, fuel) IN
            IF ~IsOk(t) THEN t ELSE ResOk(h.ok \o t.ok)

NotHoisted(i) == ~Hoisted(i)
RECURSIVE DeclsOf(_, _)
DeclsOf(is, acc) == IF is = <<>> THEN acc
                    ELSE DeclsOf(Tail(is), IF Hoisted(Head(is)) THEN AddDecl(acc, Head(is)) ELSE acc)

\* the whole program: [ok |-> flat expansion of the body] | ResErr | ResDeep
ExpandFix(g, mm, body) == ExpSeq(g, mm, body, {}, MaxDepth)
FixBody(r)  == SelectSeq(r.ok, NotHoisted)
FixDecls(r) == DeclsOf(r.ok, <<>>)

\* Calibrations::expand(instruction, &[]) for one instruction: None if it has no match
ExpandOne(g, mm, i) == IF MatchIn(g, mm, i) = NoCal THEN [none |-> TRUE] ELSE ExpInstr(g, mm, i, {}, MaxDepth)

\* C18, declaratively: the "expands to" graph on instantiated instructions
Succs(g, mm, i) == LET cal == MatchIn(g, mm, i) IN IF cal = NoCal THEN {} ELSE Range(InstBody(g, mm, cal, i))
RECURSIVE ReachFrom(_, _, _, _)
ReachFrom(g, mm, S, fuel) ==
  LET S2 == S \cup UNION {Succs(g, mm, i) : i \in S} IN
  IF S2 = S \/ fuel = 0 THEN S ELSE ReachFrom(g, mm, S2, fuel - 1)
\* some instruction reachable from the body can reach itself: it "would be expanded again while it is
\* already being expanded" (meaningful when the reachable graph is finite within the fuel)
CycleReachable(g, mm, body) ==
  LET R == ReachFrom(g, mm, Range(body), 2 * MaxDepth + 4) IN
  \E i \in R : i \in ReachFrom(g, mm, Succs(g, mm, i), 2 * MaxDepth + 4)

----------------------------------------------------------------------------
\* Invariants

Fix == ExpandFix(gc, mc, src)

\* C17: the machine's result is the declarative expansion (with and without source map)
Refines ==
  /\ m.status = "done" => IsOk(Fix) /\ m.out = FixBody(Fix) /\ m.decls = FixDecls(Fix)
  /\ m.status = "recursive" => Fix = ResErr
\* "expansion repeats until no body instruction has a match"
Fixpoint == m.status = "done" => \A n \in DOMAIN m.out : MatchIn(gc, mc, m.out[n]) = NoCal
\* "keeps unmatched instructions in order": the unmatched body instructions are a subsequence of the output
RECURSIVE IsSubseq(_, _)
IsSubseq(a, b) == IF a = <<>> THEN TRUE
                  ELSE IF b = <<>> THEN FALSE
                       ELSE IF Head(a) = Head(b) THEN IsSubseq(Tail(a), Tail(b)) ELSE IsSubseq(a, Tail(b))
Unmatched(i) == MatchIn(gc, mc, i) = NoCal
OrderKept == m.status = "done" => IsSubseq(SelectSeq(src, Unmatched), m.out)
\* "hoists declarations out of the body"
DeclarationsHoisted ==
  m.status = "done" => /\ \A n \in DOMAIN m.out : ~Hoisted(m.out[n])
                       /\ IsOk(Fix) => Range(m.decls) = {i \in Range(Fix.ok) : Hoisted(i)}

\* C18
DepthBelowBound   == Len(m.stack) <= MaxDepth
NoDuplicateOnStack == \A a, b \in DOMAIN m.stack : a # b => m.stack[a].instr # m.stack[b].instr
\* "reports that error iff some instruction would be expanded again while it is already being expanded"
ErrIffReentry ==
  /\ m.status = "recursive" => (m.cur \in Crumbs(m) /\ CycleReachable(gc, mc, src))
  /\ m.status = "done" => ~CycleReachable(gc, mc, src)
Terminates == <>Terminal

\* frames are consistent with each other: each frame's instruction is the caller's current body element
StackLinked ==
  \A n \in DOMAIN m.stack :
     /\ m.stack[n].instr = IF n = 1 THEN src[m.k] ELSE m.stack[n - 1].body[m.stack[n - 1].next]
     /\ m.stack[n].body = InstBody(gc, mc, m.stack[n].cal, m.stack[n].instr)
     /\ m.stack[n].cal = MatchIn(gc, mc, m.stack[n].instr)
=============================================================================
