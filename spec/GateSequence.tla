---------------------------- MODULE GateSequence ----------------------------
(***************************************************************************)
(* Expansion of DEFGATE ... AS SEQUENCE definitions in quil-rs:            *)
(*   quil-rs/src/program/defgate_sequence_expansion.rs                     *)
(*       ProgramDefGateSequenceExpander::{expand_with_source_map_impl,     *)
(*       gate_sequence_from_instruction}, ExpansionStack                   *)
(*   quil-rs/src/instruction/gate_sequence.rs   DefGateSequence::expand    *)
(*   quil-rs/src/program/mod.rs   filter_sequence_gate_definitions_to_keep,*)
(*       Program::expand_defgate_sequences[_with_source_map]               *)
(*                                                                         *)
(* Two things are written down side by side.                               *)
(*                                                                         *)
(* (1) The TRANSCRIPTION: the expander as an explicit stack machine.  The  *)
(*     recursion of expand_with_source_map_impl becomes a stack of frames  *)
(*     (source list, loop position, target list, source-map entries so     *)
(*     far); `estack` is the code's ExpansionStack (an IndexSet of names). *)
(*     One action per loop iteration: Copy (the else-arm), Enter (a        *)
(*     selected invocation passed every check: recursive call), Fail (one  *)
(*     of the checks of gate_sequence_from_instruction / expand returned   *)
(*     Err), Return (the recursive call returns; the Rewritten entry is    *)
(*     pushed), Finish.  Before that the keep-set loop runs: one           *)
(*     KeepSource action per iteration of the outer `for` over the         *)
(*     unselected definitions (petgraph's has_path_connecting is the       *)
(*     worklist DFS DfsFinds), then KeepFilter (the final `.filter`).      *)
(*                                                                         *)
(* (2) The ORACLE, independent of the machine: ExpD is the declarative     *)
(*     recursive substitution of the property statement, Conditions the    *)
(*     set of error conditions that hold at an invocation, KeepD the       *)
(*     keep-set as a least closed superset (no graph search), WFMap the    *)
(*     well-formedness of a source map (C21).                              *)
(*                                                                         *)
(* Abstract syntax (JSON encoding = harness/src/props/c20.rs):             *)
(*   expression  [t:"num",v:"3"] [t:"var",v:"t"] [t:"inf",op,l,r]          *)
(*               [t:"neg",e] [t:"leaf",v:<text>]                           *)
(*   instruction [k:"Gate",name,params:Seq(expr),qubits:Seq(qubit),        *)
(*                mods:Seq(string)]   |   [k:"Other",text]                 *)
(*   definition  [name,kind:"seq"|"other",params:Seq(string),              *)
(*                qubits:Seq(string),gates:Seq(Gate)]                      *)
(*   source map  Seq([s: 0-based source index,                             *)
(*                    t: [u: index] | [r: [name,from,to,nested: map]]])    *)
(***************************************************************************)
EXTENDS Abs, TLC

Num(v) == [t |-> "num", v |-> v]
Var(v) == [t |-> "var", v |-> v]
Inf(op, l, r) == [t |-> "inf", op |-> op, l |-> l, r |-> r]
Neg(e) == [t |-> "neg", e |-> e]

Gate(n, ps, qs, ms) == [k |-> "Gate", name |-> n, params |-> ps, qubits |-> qs, mods |-> ms]
Other(text) == [k |-> "Other", text |-> text]
SeqDef(n, ps, qs, gs) == [name |-> n, kind |-> "seq", params |-> ps, qubits |-> qs, gates |-> gs]
OtherDef(n, ps) == [name |-> n, kind |-> "other", params |-> ps, qubits |-> <<>>, gates |-> <<>>]

Unmod(i) == [u |-> i]
Rew(n, from, to, nested) == [r |-> [name |-> n, from |-> from, to |-> to, nested |-> nested]]
IsRew(t) == "r" \in DOMAIN t
IsUnmod(t) == "u" \in DOMAIN t

Ok(x) == [ok |-> x]
Err(x) == [err |-> x]
IsOk(r) == "ok" \in DOMAIN r
IsErr(r) == "err" \in DOMAIN r

ErrorKinds == {"ParameterCount", "GateModifiersUnsupported", "Cyclic", "QubitCount", "NonFixedQubitArgument"}

----------------------------------------------------------------------------
\* Definitions table (IndexMap<String, GateDefinition>): a sequence with unique names.

DefNames(defs) == {defs[n].name : n \in DOMAIN defs}
Def(defs, name) == defs[CHOOSE n \in DOMAIN defs : defs[n].name = name]
IsSeqName(defs, name) == name \in DefNames(defs) /\ Def(defs, name).kind = "seq"
SeqNames(defs) == {name \in DefNames(defs) : Def(defs, name).kind = "seq"}

\* "is a gate instruction that matches a sequence gate definition included by the filter"
Selected(defs, filter, i) == i.k = "Gate" /\ IsSeqName(defs, i.name) /\ i.name \in filter

----------------------------------------------------------------------------
\* Substitution (DefGateSequence::expand, Expression::substitute_variables).

\* zip(params, arguments).collect::<HashMap>: a later duplicate of a formal name wins
Env(formals, actuals) ==
  [p \in Range(formals) |-> actuals[Max({n \in DOMAIN formals : formals[n] = p /\ n \in DOMAIN actuals})]]

RECURSIVE SubstE(_, _)
SubstE(e, env) ==
  CASE e.t = "var" -> IF e.v \in DOMAIN env THEN env[e.v] ELSE e
    [] e.t = "inf" -> [e EXCEPT !.l = SubstE(e.l, env), !.r = SubstE(e.r, env)]
    [] e.t = "neg" -> [e EXCEPT !.e = SubstE(e.e, env)]
    [] OTHER -> e

\* the element gates of definition d with the parameters and qubits of invocation g substituted
\* (only evaluated when the counts match)
Instantiate(d, g) ==
  LET penv == TLCEval(Env(d.params, g.params))       \* TLCEval: evaluate once, not once per use
      qenv == TLCEval(Env(d.qubits, g.qubits))
  IN [n \in DOMAIN d.gates |->
        LET e == d.gates[n] IN
        [e EXCEPT !.params = [m \in DOMAIN e.params |-> SubstE(e.params[m], penv)],
                  !.qubits = [m \in DOMAIN e.qubits |-> qenv[e.qubits[m].s]]]]

----------------------------------------------------------------------------
\* (2) ORACLE

\* every error condition of the statement that holds for invocation g of definition d while the
\* definitions in `visiting` are being expanded around it
Conditions(d, g, visiting) ==
     (IF Len(d.params) # Len(g.params) THEN {"ParameterCount"} ELSE {})
  \cup (IF g.mods # <<>> THEN {"GateModifiersUnsupported"} ELSE {})
  \cup (IF g.name \in visiting THEN {"Cyclic"} ELSE {})
  \cup (IF Len(d.qubits) # Len(g.qubits) THEN {"QubitCount"} ELSE {})
  \cup (IF \E n \in DOMAIN g.qubits : g.qubits[n].t # "fixed" THEN {"NonFixedQubitArgument"} ELSE {})

\* Declarative expansion: each selected invocation is replaced by the definition's gates with formals
\* substituted, recursively; everything else is itself.  Result Ok(list) or Err(set of conditions
\* holding at the first offending invocation in program order).
RECURSIVE ExpD(_, _, _, _)
ExpD(defs, filter, instrs, visiting) ==
  IF instrs = <<>> THEN Ok(<<>>)
  ELSE LET g == Head(instrs)
           first == IF ~Selected(defs, filter, g) THEN Ok(<<g>>)
                    ELSE LET d == Def(defs, g.name)
                             conds == Conditions(d, g, visiting) IN
                         IF conds # {} THEN Err(conds)
                         ELSE ExpD(defs, filter, Instantiate(d, g), visiting \cup {g.name})
       IN IF IsErr(first) THEN first
          ELSE LET rest == ExpD(defs, filter, Tail(instrs), visiting) IN
               IF IsErr(rest) THEN rest ELSE Ok(first.ok \o rest.ok)

\* Keep-set: a sequence definition is kept iff it is unselected or reachable from an unselected
\* sequence definition.  Reachability without a search: n is reachable from S iff it lies in every
\* set that contains S and is closed under "references".
Refs(defs) == {<<a, b>> \in SeqNames(defs) \X SeqNames(defs) :
                  \E n \in DOMAIN Def(defs, a).gates : Def(defs, a).gates[n].name = b}
ClosedUnder(E, X) == \A e \in E : e[1] \in X => e[2] \in X
ReachFrom(defs, S) ==
  LET E == TLCEval(Refs(defs))
      nodes == TLCEval(SeqNames(defs))
      closedSupersets == TLCEval({X \in SUBSET nodes : S \subseteq X /\ ClosedUnder(E, X)})
  IN {n \in nodes : \A X \in closedSupersets : n \in X}
\* The same set as the limit of the monotone iteration X |-> X \cup successors(X) (Kleene), which is cheap
\* enough to be evaluated on thousands of recorded results; ReachAgree (checked by TLC on every table of the
\* exhaustive families) states that the two definitions coincide.
RECURSIVE ReachIter(_, _, _)
ReachIter(E, X, k) == IF k = 0 THEN X ELSE ReachIter(E, X \cup {e[2] : e \in {f \in E : f[1] \in X}}, k - 1)
ReachLfp(defs, S) == ReachIter(TLCEval(Refs(defs)), S, Cardinality(SeqNames(defs)))
Unselected(defs, filter) == {n \in SeqNames(defs) : n \notin filter}
KeepD(defs, filter) == (DefNames(defs) \ SeqNames(defs)) \cup ReachFrom(defs, Unselected(defs, filter))
KeepDFast(defs, filter) == (DefNames(defs) \ SeqNames(defs)) \cup ReachLfp(defs, Unselected(defs, filter))

\* names of defs in table order restricted to a set (the kept gate_definitions keys)
InOrder(defs, S) == LET pick(d) == d.name \in S IN
                    LET ks == SelectSeq(defs, pick) IN [n \in DOMAIN ks |-> ks[n].name]

\* C21: the source map `map` accounts for the expansion of `src` into `out`:
\*  - exactly one entry per source instruction, in order;
\*  - the entries tile 0..Len(out) in order (contiguous ranges, nothing missing, nothing twice);
\*  - an unselected instruction has an Unmodified entry pointing at an identical output instruction;
\*  - a selected invocation has a Rewritten entry whose range holds exactly the gates the invocation
\*    produced, and whose nested map is a well-formed map of (instantiated definition body -> that
\*    slice), i.e. in coordinates relative to the parent range.
\* (The definition name recorded in a Rewritten entry is not part of the statement and not demanded here;
\*  MapNames below states it for the machine's own maps.)
SpanFrom(t) == IF IsRew(t) THEN t.r.from ELSE t.u
SpanTo(t)   == IF IsRew(t) THEN t.r.to ELSE t.u + 1
RECURSIVE WFMap(_, _, _, _, _, _)
WFMap(defs, filter, src, out, map, visiting) ==
  /\ Len(map) = Len(src)
  /\ \A n \in DOMAIN map : map[n].s = n - 1
  /\ \A n \in DOMAIN map : SpanFrom(map[n].t) <= SpanTo(map[n].t)
  /\ (map # <<>> => SpanFrom(map[1].t) = 0 /\ SpanTo(map[Len(map)].t) = Len(out))
  /\ (map = <<>> => out = <<>>)
  /\ \A n \in 1..(Len(map) - 1) : SpanTo(map[n].t) = SpanFrom(map[n + 1].t)
  /\ \A n \in DOMAIN map :
        LET g == src[n] t == map[n].t IN
        IF Selected(defs, filter, g)
        THEN /\ IsRew(t)
             /\ LET d == Def(defs, g.name) IN
                /\ Conditions(d, g, visiting) = {}
                /\ LET inner == Instantiate(d, g)
                       want  == ExpD(defs, filter, inner, visiting \cup {g.name})
                       slice == SubSeq(out, t.r.from + 1, t.r.to) IN
                   /\ IsOk(want) /\ slice = want.ok
                   /\ WFMap(defs, filter, inner, slice, t.r.nested, visiting \cup {g.name})
        ELSE /\ IsUnmod(t)
             /\ t.u + 1 \in DOMAIN out /\ out[t.u + 1] = g

RECURSIVE MapNamesOk(_, _, _)
MapNamesOk(defs, src, map) ==
  \A n \in DOMAIN map : IsRew(map[n].t) =>
      /\ map[n].t.r.name = src[n].name
      /\ MapNamesOk(defs, Instantiate(Def(defs, src[n].name), src[n]), map[n].t.r.nested)

\* list_sources / list_targets as the SourceMap API answers them (entries whose target contains an
\* index; entries whose source is an index), for the cross-check of the query functions
ListSources(map, ti) == LET hit(e) == SpanFrom(e.t) <= ti /\ ti < SpanTo(e.t) IN
                        LET es == SelectSeq(map, hit) IN [n \in DOMAIN es |-> es[n].s]
SourcesExact(map, out) == \A ti \in 0..(Len(out) - 1) : Len(ListSources(map, ti)) = 1

----------------------------------------------------------------------------
\* (1) TRANSCRIPTION

\* Deviation switches (all off in the shipped configurations).  Each reproduces one plausible wrong edit of
\* the code (DESIGN.md section 11, rows C20/C21) so that TLC can show the invariant that catches it
\* (configurations spec/mc/MC_C20_deviation_*.cfg; see the comments there):
\*   "KeepDirectOnly"        the keep loop follows references one step only (no transitive closure)
\*   "NoStackPop"            with_gate_sequence forgets to pop the ExpansionStack
\*   "RangeFromSourceIndex"  the start of a Rewritten range is taken from the source index
\*   "CycleCheckFirst"       harmless reordering of the checks (cycle check before the parameter count):
\*                           no invariant may fail, only the reported category changes
CONSTANT Deviations
Dev(d) == d \in Deviations

\* petgraph::algo::has_path_connecting(graph, from, to): Dfs with an explicit stack and a
\* discovered set; the walk starts at `from` itself, so from = to is connected.
RECURSIVE DfsFinds(_, _, _, _, _)
DfsFinds(order, E, stack, seen, target) ==
  IF stack = <<>> THEN FALSE
  ELSE LET n == stack[Len(stack)]
           rest == SubSeq(stack, 1, Len(stack) - 1) IN
       IF n \in seen THEN DfsFinds(order, E, rest, seen, target)
       ELSE IF n = target THEN TRUE
       ELSE LET fresh(m) == <<n, m>> \in E /\ m \notin seen IN
            DfsFinds(order, E, rest \o SelectSeq(order, fresh), seen \cup {n}, target)

\* the order in which the seq definitions are visited (table order; the code iterates a HashMap, the
\* result is a set, so the order is immaterial)
SeqOrder(defs) == LET isSeq(d) == d.kind = "seq" IN
                  LET ds == SelectSeq(defs, isSeq) IN [n \in DOMAIN ds |-> ds[n].name]

\* the checks of gate_sequence_from_instruction and DefGateSequence::expand, in the code's order
CheckErr(d, g, stack) ==
  IF Dev("CycleCheckFirst") /\ g.name \in Range(stack) THEN Some("Cyclic")
  ELSE IF Len(d.params) # Len(g.params) THEN Some("ParameterCount")
  ELSE IF g.mods # <<>> THEN Some("GateModifiersUnsupported")
  ELSE IF g.name \in Range(stack) THEN Some("Cyclic")
  ELSE IF Len(g.qubits) # Len(d.qubits) THEN Some("QubitCount")
  ELSE IF \E n \in DOMAIN g.qubits : g.qubits[n].t # "fixed" THEN Some("NonFixedQubitArgument")
  ELSE None

Frame(src, name) == [src |-> src, i |-> 1, out |-> <<>>, ents |-> <<>>, name |-> name]

VARIABLES defs,      \* Program::gate_definitions (input)
          filter,    \* the set of names for which the filter closure answers true (input)
          body,      \* Program::instructions (input)
          phase,     \* "gen" | "keep" | "run" | "done"
          ksrc,      \* keep loop: unselected definitions still to process (sequence of names)
          kreach,    \* keep loop: seq_defgates_referenced_by_unfiltered_seq_defgates
          kept,      \* None until KeepFilter, then Some(keys of the kept gate_definitions, in order)
          frames,    \* the call stack of expand_with_source_map_impl
          estack,    \* ExpansionStack
          result     \* None | Ok([out, map]) | Err(kind)
vars == <<defs, filter, body, phase, ksrc, kreach, kept, frames, estack, result>>

Start(ds, f, b) ==
  /\ defs' = ds /\ filter' = f /\ body' = b /\ phase' = "keep"
  /\ ksrc' = LET unsel(n) == n \notin f IN SelectSeq(SeqOrder(ds), unsel)
  /\ kreach' = {} /\ kept' = None /\ frames' = <<Frame(b, "")>> /\ estack' = <<>> /\ result' = None

\* one iteration of `for (_, (i, _)) in gate_sequence_definitions.iter().filter(|(name, _)| !filter(name))`
KeepSource ==
  /\ phase = "keep" /\ ksrc # <<>>
  /\ LET i == Head(ksrc)
         E == TLCEval(Refs(defs))
         order == TLCEval(SeqOrder(defs)) IN
     kreach' = kreach \cup (IF Dev("KeepDirectOnly")
                            THEN {i} \cup {j \in SeqNames(defs) : <<i, j>> \in E}
                            ELSE {j \in SeqNames(defs) : DfsFinds(order, E, <<i>>, {}, j)})
  /\ ksrc' = Tail(ksrc)
  /\ UNCHANGED <<defs, filter, body, phase, kept, frames, estack, result>>

\* the final `.filter(...)` over gate_definitions
KeepFilter ==
  /\ phase = "keep" /\ ksrc = <<>>
  /\ kept' = Some(InOrder(defs, {n \in DefNames(defs) :
                                    IF IsSeqName(defs, n) THEN n \notin filter \/ n \in kreach ELSE TRUE}))
  /\ phase' = "run"
  /\ UNCHANGED <<defs, filter, body, ksrc, kreach, frames, estack, result>>

Top == frames[Len(frames)]
AtInstr == phase = "run" /\ Top.i <= Len(Top.src)
Cur == Top.src[Top.i]
SetTop(f) == [frames EXCEPT ![Len(frames)] = f]

\* else-arm: target_instructions.push(source_instruction.clone()); Unmodified entry
Copy ==
  /\ AtInstr /\ ~Selected(defs, filter, Cur)
  /\ frames' = SetTop([Top EXCEPT !.i = @ + 1, !.out = Append(@, Cur),
                                  !.ents = Append(@, [s |-> Top.i - 1, t |-> Unmod(Len(Top.out))])])
  /\ UNCHANGED <<defs, filter, body, phase, ksrc, kreach, kept, estack, result>>

\* gate_sequence_from_instruction(...)? returns Err
Fail ==
  /\ AtInstr /\ Selected(defs, filter, Cur)
  /\ LET e == CheckErr(Def(defs, Cur.name), Cur, estack) IN
     /\ IsSome(e)
     /\ result' = Err(e.some)
  /\ phase' = "done"
  /\ UNCHANGED <<defs, filter, body, ksrc, kreach, kept, frames, estack>>

\* every check passed: stack.with_gate_sequence(name, |stack| self.expand_with_source_map_impl(...))
Enter ==
  /\ AtInstr /\ Selected(defs, filter, Cur)
  /\ IsNone(CheckErr(Def(defs, Cur.name), Cur, estack))
  /\ frames' = Append(frames, Frame(Instantiate(Def(defs, Cur.name), Cur), Cur.name))
  /\ estack' = Append(estack, Cur.name)
  /\ UNCHANGED <<defs, filter, body, phase, ksrc, kreach, kept, result>>

\* the recursive call returns Ok: pop the ExpansionStack, push the Rewritten entry, extend the targets
Return ==
  /\ phase = "run" /\ Top.i > Len(Top.src) /\ Len(frames) > 1
  /\ LET child == Top
         parent == frames[Len(frames) - 1]
         from == IF Dev("RangeFromSourceIndex") THEN parent.i - 1 ELSE Len(parent.out) IN
     frames' = [SubSeq(frames, 1, Len(frames) - 1) EXCEPT ![Len(frames) - 1] =
                  [parent EXCEPT !.i = @ + 1, !.out = @ \o child.out,
                                 !.ents = Append(@, [s |-> parent.i - 1,
                                                     t |-> Rew(child.name, from, from + Len(child.out), child.ents)])]]
  /\ estack' = IF Dev("NoStackPop") THEN estack ELSE SubSeq(estack, 1, Len(estack) - 1)
  /\ UNCHANGED <<defs, filter, body, phase, ksrc, kreach, kept, result>>

Finish ==
  /\ phase = "run" /\ Top.i > Len(Top.src) /\ Len(frames) = 1
  /\ result' = Ok([out |-> Top.out, map |-> Top.ents])
  /\ phase' = "done"
  /\ UNCHANGED <<defs, filter, body, ksrc, kreach, kept, frames, estack>>

RunNext == KeepSource \/ KeepFilter \/ Copy \/ Fail \/ Enter \/ Return \/ Finish

----------------------------------------------------------------------------
\* Properties of the machine against the oracle.

Done == phase = "done"
Want == ExpD(defs, filter, body, {})

\* C20 "replaces each selected invocation ... recursively": the machine's output is the declarative expansion
Refines == (Done /\ IsOk(result)) => (IsOk(Want) /\ result.ok.out = Want.ok)
\* C20 "cycles and arity or modifier misuse are reported as errors": an error is reported iff the
\* declarative expansion meets an offending invocation, and the reported category is one of the
\* conditions that hold there
ErrorsExact == Done => /\ (IsErr(result) <=> IsErr(Want))
                       /\ (IsErr(result) => result.err \in Want.err)
\* C20 "unselected invocations and all other instructions stay unchanged"
OthersUntouched == (Done /\ IsOk(result)) =>
   \A n \in DOMAIN body : ~Selected(defs, filter, body[n]) =>
       LET t == result.ok.map[n].t IN IsUnmod(t) /\ result.ok.out[t.u + 1] = body[n]
\* C20 "a sequence definition is kept iff it is unselected or reachable from an unselected sequence"
KeepSetExact == Done => Range(kept.some) = KeepD(defs, filter)
KeepOrder    == Done => kept.some = InOrder(defs, KeepD(defs, filter))
\* C21 on the machine's own map
MapWellFormed == (Done /\ IsOk(result)) =>
   /\ WFMap(defs, filter, body, result.ok.out, result.ok.map, {})
   /\ SourcesExact(result.ok.map, result.ok.out)
ReachAgree == Done => \A S \in SUBSET SeqNames(defs) : ReachFrom(defs, S) = ReachLfp(defs, S)
MapNames == (Done /\ IsOk(result)) => MapNamesOk(defs, body, result.ok.map)
\* no selected invocation survives, at any depth
FullyExpanded == (Done /\ IsOk(result)) =>
   \A n \in DOMAIN result.ok.out : ~Selected(defs, filter, result.ok.out[n])

\* C20 "expansion always terminates": the ExpansionStack is exactly the chain of definitions being
\* expanded, without repetition, so the depth is bounded by the number of sequence definitions; every
\* frame's position only grows; and no state before `done` is stuck.
StackDiscipline ==
  /\ Len(frames) = Len(estack) + 1
  /\ \A n \in DOMAIN estack : frames[n + 1].name = estack[n]
  /\ \A m, n \in DOMAIN estack : m # n => estack[m] # estack[n]
  /\ Range(estack) \subseteq (SeqNames(defs) \cap filter)
DepthBounded == Len(frames) <= Cardinality(SeqNames(defs) \cap filter) + 1
NotStuck == phase \in {"keep", "run"} => ENABLED RunNext
\* loop invariant of every frame: what it has produced so far is the declarative expansion of what it
\* has consumed so far
\* (suspended frames do not change while suspended, so it is enough to state it for the top frame)
FrameInvariant == phase = "run" =>
  LET f == Top
      sofar == ExpD(defs, filter, SubSeq(f.src, 1, f.i - 1), Range(estack)) IN
  IsOk(sofar) /\ sofar.ok = f.out /\ Len(f.ents) = f.i - 1
=============================================================================
