------------------------------ MODULE Waveform ------------------------------
(***************************************************************************)
(* Sampling of the built-in waveforms of quil-rs                           *)
(* (quil-rs/src/waveform/builtin.rs, builtin/partiality.rs, sampling.rs).  *)
(*                                                                         *)
(* What the module decides is discrete: HOW MANY samples a call returns,   *)
(* WHETHER it returns samples or a placeholder, and in which               *)
(* representation (IqSamples::Flat or ::Samples) -- as a function of the   *)
(* waveform kind, of integer sample arithmetic (durations and paddings     *)
(* are rationals in units of one sample period) and of WHICH parameters    *)
(* are known.  The numbers in the samples are outside TLA+; the response   *)
(* laws (scale, phase, zero scale, partial-then-known = direct) are        *)
(* stated here as relations between runs and evaluated numerically by the  *)
(* harness on the runs the model pairs up.                                 *)
(*                                                                         *)
(* Parameter knowledge is an automaton: a waveform's own parameters are    *)
(* "unknown" or "known"; the three optional common parameters (scale,      *)
(* phase, detuning) are "absent" (default applies), "unknown" (mentioned,  *)
(* value not yet available) or "known" with a value label.  Mention*       *)
(* and Supply* are the actions; every state is one argument of             *)
(* partial_iq_values_at_sample_rate.                                       *)
(***************************************************************************)
EXTENDS Abs, TLC

Kinds == {"flat", "gaussian", "drag_gaussian", "erf_square", "hermite_gaussian", "raised_cosine",
          "boxcar_kernel"}
\* the parameters of each kind that may be unknown (T::Real / T::Complex fields)
OwnParams(kind) ==
  CASE kind = "flat" -> {"iq"}
    [] kind = "gaussian" -> {"fwhm", "t0"}
    [] kind = "drag_gaussian" -> {"fwhm", "t0", "anh", "alpha"}
    [] kind = "erf_square" -> {"risetime"}
    [] kind = "hermite_gaussian" -> {"fwhm", "t0", "anh", "alpha", "second_order_hrm_coeff"}
    [] kind = "raised_cosine" -> {"rolloff"}
    [] kind = "boxcar_kernel" -> {}
\* pad_left / pad_right exist (always concrete) for these kinds
Padded(kind)   == kind \in {"erf_square", "raised_cosine"}
\* kinds sampled through resolve_for_flat_unless_detuned (a single IQ value repeated)
FlatLike(kind) == kind \in {"flat", "boxcar_kernel"}

\* a length of time in units of one sample period: num / den samples (den = 1: aligned; den = 2 with
\* odd num: half a sample off; den = 4: a quarter off)
Q(num, den) == [num |-> num, den |-> den]
Aligned(q)  == q.num % q.den = 0
Ceil(q)     == (q.num + q.den - 1) \div q.den
\* the misalignment |x - round x| of num/den samples is 0 or 1/2; the code tolerates < 1/(100 rate)
\* SAMPLES (sic), which is < 1/2 for every rate >= 1/50: a half-sample offset is always an error

Absent     == [t |-> "absent", v |-> ""]
Unknown    == [t |-> "unknown", v |-> ""]
Known(v)   == [t |-> "known", v |-> v]
IsZero(c)  == c.t = "known" /\ c.v = "0"           \* value labels: "0" is zero, every other label is not

VARIABLES kind, rate,      \* rate: a label ("1", "4", "1e9"); the arithmetic below is in samples
          dur,             \* duration in samples (Q)
          padL, padR,      \* paddings in samples (Q); only meaningful for Padded kinds
          own,             \* [OwnParams(kind) -> {"unknown", "known"}]
          scale, phase, detuning
vars == <<kind, rate, dur, padL, padR, own, scale, phase, detuning>>

----------------------------------------------------------------------------
\* The automaton

WInit(kd, rt, d, pl, pr) ==
  /\ kind = kd /\ rate = rt /\ dur = d /\ padL = pl /\ padR = pr
  /\ own = [p \in OwnParams(kd) |-> "unknown"]
  /\ scale = Absent /\ phase = Absent /\ detuning = Absent

\* the parameter is written in the invocation but its value is not available yet
MentionScale    == scale = Absent /\ scale' = Unknown /\ UNCHANGED <<kind, rate, dur, padL, padR, own, phase, detuning>>
MentionPhase    == phase = Absent /\ phase' = Unknown /\ UNCHANGED <<kind, rate, dur, padL, padR, own, scale, detuning>>
MentionDetuning == detuning = Absent /\ detuning' = Unknown /\ UNCHANGED <<kind, rate, dur, padL, padR, own, scale, phase>>
\* a value becomes available
SupplyOwn(p) == /\ p \in DOMAIN own /\ own[p] = "unknown"
                /\ own' = [own EXCEPT ![p] = "known"]
                /\ UNCHANGED <<kind, rate, dur, padL, padR, scale, phase, detuning>>
SupplyScale(v)    == scale = Unknown /\ scale' = Known(v) /\ UNCHANGED <<kind, rate, dur, padL, padR, own, phase, detuning>>
SupplyPhase(v)    == phase = Unknown /\ phase' = Known(v) /\ UNCHANGED <<kind, rate, dur, padL, padR, own, scale, detuning>>
SupplyDetuning(v) == detuning = Unknown /\ detuning' = Known(v) /\ UNCHANGED <<kind, rate, dur, padL, padR, own, scale, phase>>

----------------------------------------------------------------------------
\* Transcription of the code: what partial_iq_values_at_sample_rate returns in the current state.
\* A result is [t, shape, len, zeros]:
\*   t     "error" | "placeholder" | "samples"
\*   shape "flat" (IqSamples::Flat) | "vec" (IqSamples::Samples)     ("" for errors)
\*   zeros TRUE iff the code takes a branch that returns all-zero samples by construction

Err(what)          == [t |-> "error", shape |-> what, len |-> 0, zeros |-> FALSE]
Placeholder(sh, n) == [t |-> "placeholder", shape |-> sh, len |-> n, zeros |-> FALSE]
Samples(sh, n, z)  == [t |-> "samples", shape |-> sh, len |-> n, zeros |-> z]

\* the state as one value, so that the transcription and the property can be evaluated on any state
\* (current, next, or one recorded from the real code)
St(kd, d, pl, pr, ow, sc, ph, de) ==
  [kind |-> kd, dur |-> d, padL |-> pl, padR |-> pr, own |-> ow, scale |-> sc, phase |-> ph, detuning |-> de]
Cur == St(kind, dur, padL, padR, own, scale, phase, detuning)

\* CommonBuiltinParameters::raw_resolve_with_sample_rate: Err | Partial(count) | Total(count)
CommonPartial(s) == s.scale = Unknown \/ s.phase = Unknown \/ s.detuning = Unknown
OwnPartial(s)    == \E p \in DOMAIN s.own : s.own[p] = "unknown"
Count(s)         == s.dur.num \div s.dur.den
PadCount(q)      == Ceil(q)                                      \* (pad * sample_rate).ceil()

\* resolve_for_flat_unless_detuned + Flat / BoxcarKernel
FlatLikeResult(s) ==
  LET placeholderShape == IF s.detuning = Absent \/ IsZero(s.detuning) THEN "flat" ELSE "vec" IN
  IF CommonPartial(s) THEN Placeholder(placeholderShape, Count(s))
  ELSE IF OwnPartial(s) THEN Placeholder(placeholderShape, Count(s))
  ELSE Samples(IF s.detuning = Absent \/ IsZero(s.detuning) THEN "flat" ELSE "vec", Count(s), IsZero(s.scale))

\* concretize_and_resolve + the scale_is_zero short-circuit (Gaussian, DragGaussian, HermiteGaussian
\* through build_sample_per_time_step_and_adjust_for_common_parameters; ErfSquare, RaisedCosine inline)
SampledResult(s) ==
  LET total == Count(s) + (IF Padded(s.kind) THEN PadCount(s.padL) + PadCount(s.padR) ELSE 0) IN
  IF CommonPartial(s) \/ OwnPartial(s)
  THEN (IF IsZero(s.scale) THEN Samples("flat", total, TRUE) ELSE Placeholder("vec", total))
  ELSE (IF IsZero(s.scale) THEN Samples("flat", total, TRUE) ELSE Samples("vec", total, FALSE))

ResultOf(s) == IF ~Aligned(s.dur) THEN Err("misaligned")
               ELSE IF FlatLike(s.kind) THEN FlatLikeResult(s) ELSE SampledResult(s)
Result == ResultOf(Cur)

----------------------------------------------------------------------------
\* The property (C32), stated on (state, result) without the code's case structure.

\* "the number of IQ samples is the rounded product of duration and sample rate; padded waveforms add
\*  the rounded-up padding on each side" -- whatever is known
ExpectedLen(s) == (s.dur.num \div s.dur.den) + (IF Padded(s.kind) THEN Ceil(s.padL) + Ceil(s.padR) ELSE 0)
LengthOf(s, r) == (Aligned(s.dur) /\ r.t # "error") => r.len = ExpectedLen(s)

SomethingUnknown(s) == CommonPartial(s) \/ OwnPartial(s)
\* "partially known parameters give placeholders ..., once known, the same samples; zero scale gives
\*  all-zero samples": placeholder iff something needed is unknown -- except that a KNOWN zero scale may
\* already answer with the zeros
ShapeOf(s, r) == Aligned(s.dur) =>
  /\ (~SomethingUnknown(s) => r.t = "samples")
  /\ (SomethingUnknown(s) /\ ~IsZero(s.scale) => r.t = "placeholder")
  /\ (SomethingUnknown(s) /\ IsZero(s.scale) => (r.t = "placeholder" \/ (r.t = "samples" /\ r.zeros)))
  /\ (~SomethingUnknown(s) /\ IsZero(s.scale) => r.zeros)
\* the statement covers aligned durations only; for the others the code documents an error
MisalignedOf(s, r) == ~Aligned(s.dur) => r.t = "error"

LengthExact    == LengthOf(Cur, Result)
ShapeRight     == ShapeOf(Cur, Result)
MisalignedErr  == MisalignedOf(Cur, Result)
TypeOK == /\ kind \in Kinds /\ DOMAIN own = OwnParams(kind)
          /\ \A p \in DOMAIN own : own[p] \in {"unknown", "known"}
          /\ \A c \in {scale, phase, detuning} : c.t \in {"absent", "unknown", "known"}

\* action properties: no step changes the length, and supplying a value never turns samples back
\* into a placeholder
LengthConstantUnderSupply == [][Result'.t # "error" => Result'.len = Result.len]_vars
Mentioning == (scale = Absent /\ scale' = Unknown) \/ (phase = Absent /\ phase' = Unknown)
              \/ (detuning = Absent /\ detuning' = Unknown)
NoWayBack == [][~Mentioning => (Result.t = "samples" => Result'.t = "samples")]_vars

\* Response laws, as relations between runs (evaluated numerically by the harness):
\*   for a fully known state S with scale s and phase p (cycles), and S1 the same state with scale 1
\*   and phase 0:   samples(S)[i] = s * exp(2 pi i p) * samples(S1)[i]   for every i
\*   samples(S with scale 0) = 0;   partial call on a fully known state = concrete call
FullyKnown(s) == ~SomethingUnknown(s)
ScaleOf(s) == IF s.scale.t = "known" THEN s.scale.v ELSE "1"       \* default 1.0
PhaseOf(s) == IF s.phase.t = "known" THEN s.phase.v ELSE "0"       \* default 0.0
=============================================================================
