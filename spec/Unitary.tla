------------------------------ MODULE Unitary ------------------------------
(***************************************************************************)
(* Gate unitaries of quil-rs (quil-rs/src/instruction/gate.rs,             *)
(* Program::to_unitary / Program::dagger in quil-rs/src/program/mod.rs).   *)
(*                                                                         *)
(* A matrix is a function [0..d-1 -> [0..d-1 -> entry]] whose entries are  *)
(* SYMBOLS from a small vocabulary closed under complex conjugation        *)
(* (0, 1, -1, i, -i, 1/sqrt2, e^{i pi/4}, cos(theta_k/2), e^{i theta_k},   *)
(* ...).  Everything TLC decides is structural: which entry of which       *)
(* standard table lands at which (row, column) of the n-qubit matrix.      *)
(* Two evaluations of the symbols exist:                                   *)
(*   - exactly, inside TLC, in the finite field GF(991^2) = GF(991)[i]     *)
(*     with generic points on the unit circle for the parameters: used to  *)
(*     check unitarity and the program laws as TLC invariants;             *)
(*   - numerically (f64), in the harness, for the comparison with the      *)
(*     real code (DESIGN.md section 8).                                    *)
(*                                                                         *)
(* Parts:                                                                  *)
(*   1. symbols, conjugation, matrices                                     *)
(*   2. the 22 standard gate tables of the Quil specification              *)
(*   3. modifiers (constructive: block matrices, first modifier outermost) *)
(*   4. lifting by bit arithmetic (qubit 0 = least significant bit)        *)
(*   5. the property, stated declaratively on lifted matrices (C14, C15)   *)
(*   6. the builder state machine: one action per public builder call      *)
(*      (Gate::new / dagger / controlled / forked), program append,        *)
(*      Program::dagger                                                    *)
(*   7. exact evaluation in GF(991^2): unitarity, product and adjoint laws *)
(*   8. the lifting ALGORITHM of the code (permutation_arbitrary /         *)
(*      two_swap_helper) as a state machine, refined against part 4        *)
(***************************************************************************)
EXTENDS Abs, TLC

----------------------------------------------------------------------------
\* 1. symbols and matrices

\* constants have p = 0; parametric symbols carry the 1-based index of the gate parameter
Sym(x)  == [s |-> x, p |-> 0]
P(f, k) == [s |-> f, p |-> k]
Z == Sym("0")
O == Sym("1")

ConstNames == {"0", "1", "-1", "i", "-i", "h", "-h", "t", "t_conj"}
ParamNames == {"cos_half", "-isin_half", "isin_half", "sin_half", "-sin_half",
               "cis", "cis_conj", "cis_half", "cis_half_conj"}

\* complex conjugate of a symbol: the vocabulary is closed, so no wrapper node is ever needed
ConjName(x) ==
  CASE x = "i" -> "-i"   [] x = "-i" -> "i"
    [] x = "t" -> "t_conj" [] x = "t_conj" -> "t"
    [] x = "-isin_half" -> "isin_half" [] x = "isin_half" -> "-isin_half"
    [] x = "cis" -> "cis_conj" [] x = "cis_conj" -> "cis"
    [] x = "cis_half" -> "cis_half_conj" [] x = "cis_half_conj" -> "cis_half"
    [] OTHER -> x          \* 0, 1, -1, h, -h, cos_half, sin_half, -sin_half are real
Conj(e) == [s |-> ConjName(e.s), p |-> e.p]

RECURSIVE Pow2(_)
Pow2(k) == IF k = 0 THEN 1 ELSE 2 * Pow2(k - 1)
Bit(r, q) == (r \div Pow2(q)) % 2

Mat(d, f(_, _)) == [r \in 0..d-1 |-> [c \in 0..d-1 |-> f(r, c)]]
Dim(M) == Cardinality(DOMAIN M)
Id(d) == Mat(d, LAMBDA r, c : IF r = c THEN O ELSE Z)
Diag(seq) == Mat(Len(seq), LAMBDA r, c : IF r = c THEN seq[r + 1] ELSE Z)
FromRows(rows) == Mat(Len(rows), LAMBDA r, c : rows[r + 1][c + 1])
\* basis permutation: column c (input basis state) is sent to row p[c + 1]
Perm(p) == Mat(Len(p), LAMBDA r, c : IF p[c + 1] = r THEN O ELSE Z)
Adjoint(M) == Mat(Dim(M), LAMBDA r, c : Conj(M[c][r]))

----------------------------------------------------------------------------
\* 2. Standard gates (Quil specification, "Standard Gate Definitions"), written from the
\*    specification, not from the code.  Inside a gate the FIRST listed qubit is the most
\*    significant bit of the row/column index.  k = index of the gate's (only) parameter.

Std(name, k) ==
  CASE name = "I" -> Id(2)
    [] name = "X" -> FromRows(<<<<Z, O>>, <<O, Z>>>>)
    [] name = "Y" -> FromRows(<<<<Z, Sym("-i")>>, <<Sym("i"), Z>>>>)
    [] name = "Z" -> Diag(<<O, Sym("-1")>>)
    [] name = "H" -> FromRows(<<<<Sym("h"), Sym("h")>>, <<Sym("h"), Sym("-h")>>>>)
    [] name = "S" -> Diag(<<O, Sym("i")>>)
    [] name = "T" -> Diag(<<O, Sym("t")>>)
    [] name = "CNOT" -> Perm(<<0, 1, 3, 2>>)                   \* |10> <-> |11>
    [] name = "CZ" -> Diag(<<O, O, O, Sym("-1")>>)
    [] name = "SWAP" -> Perm(<<0, 2, 1, 3>>)                   \* |01> <-> |10>
    [] name = "ISWAP" -> FromRows(<<<<O, Z, Z, Z>>, <<Z, Z, Sym("i"), Z>>,
                                    <<Z, Sym("i"), Z, Z>>, <<Z, Z, Z, O>>>>)
    [] name = "CCNOT" -> Perm(<<0, 1, 2, 3, 4, 5, 7, 6>>)      \* |110> <-> |111>
    [] name = "CSWAP" -> Perm(<<0, 1, 2, 3, 4, 6, 5, 7>>)      \* |101> <-> |110>
    [] name = "RX" -> FromRows(<<<<P("cos_half", k), P("-isin_half", k)>>,
                                 <<P("-isin_half", k), P("cos_half", k)>>>>)
    [] name = "RY" -> FromRows(<<<<P("cos_half", k), P("-sin_half", k)>>,
                                 <<P("sin_half", k), P("cos_half", k)>>>>)
    [] name = "RZ" -> Diag(<<P("cis_half_conj", k), P("cis_half", k)>>)
    [] name = "PHASE" -> Diag(<<O, P("cis", k)>>)
    [] name = "CPHASE00" -> Diag(<<P("cis", k), O, O, O>>)
    [] name = "CPHASE01" -> Diag(<<O, P("cis", k), O, O>>)
    [] name = "CPHASE10" -> Diag(<<O, O, P("cis", k), O>>)
    [] name = "CPHASE" -> Diag(<<O, O, O, P("cis", k)>>)
    [] name = "PSWAP" -> FromRows(<<<<O, Z, Z, Z>>, <<Z, Z, P("cis", k), Z>>,
                                    <<Z, P("cis", k), Z, Z>>, <<Z, Z, Z, O>>>>)

Arity == [I |-> 1, X |-> 1, Y |-> 1, Z |-> 1, H |-> 1, S |-> 1, T |-> 1,
          CNOT |-> 2, CZ |-> 2, SWAP |-> 2, ISWAP |-> 2, CCNOT |-> 3, CSWAP |-> 3,
          RX |-> 1, RY |-> 1, RZ |-> 1, PHASE |-> 1,
          CPHASE00 |-> 2, CPHASE01 |-> 2, CPHASE10 |-> 2, CPHASE |-> 2, PSWAP |-> 2]
StdGates == DOMAIN Arity
Parametric == {"RX", "RY", "RZ", "PHASE", "CPHASE00", "CPHASE01", "CPHASE10", "CPHASE", "PSWAP"}
NParams(name) == IF name \in Parametric THEN 1 ELSE 0

----------------------------------------------------------------------------
\* 3. A gate value, as the Rust struct: name, modifiers (first = outermost), qubits, and the
\*    parameter list, abstracted to the indices of formal parameters theta_1 .. theta_np
\*    (np = Len(params); the harness chooses the numbers).

GateRec(name, mods, qs, np) == [name |-> name, mods |-> mods, qs |-> qs, np |-> np]

NonDagger(mods) == SelectSeq(mods, LAMBDA m : m # "DAGGER")
Forks(mods)     == Len(SelectSeq(mods, LAMBDA m : m = "FORKED"))
\* a gate value the property speaks about: right number of qubits and of parameters
WellFormed(g) == /\ g.name \in StdGates
                 /\ Len(g.qs) = Arity[g.name] + Len(NonDagger(g.mods))
                 /\ g.np = NParams(g.name) * Pow2(Forks(g.mods))
                 /\ \A a, b \in DOMAIN g.qs : a # b => g.qs[a] # g.qs[b]

Block(M0, M1) == LET d == Dim(M0) IN
  Mat(2 * d, LAMBDA r, c : IF r < d /\ c < d THEN M0[r][c]
                           ELSE IF r >= d /\ c >= d THEN M1[r - d][c - d] ELSE Z)

\* local matrix of name with modifier list mods and parameters theta_k0 .. theta_{k0+np-1}:
\* the first modifier is the outermost one; CONTROLLED/FORKED put their qubit on top (most significant)
RECURSIVE GateMat(_, _, _, _)
GateMat(name, mods, k0, np) ==
  IF mods = <<>> THEN Std(name, k0)
  ELSE CASE Head(mods) = "DAGGER" -> Adjoint(GateMat(name, Tail(mods), k0, np))
         [] Head(mods) = "CONTROLLED" ->
              (LET M == GateMat(name, Tail(mods), k0, np) IN Block(Id(Dim(M)), M))
         [] Head(mods) = "FORKED" ->
              Block(GateMat(name, Tail(mods), k0, np \div 2),
                    GateMat(name, Tail(mods), k0 + np \div 2, np \div 2))
Local(g) == GateMat(g.name, g.mods, 1, g.np)

----------------------------------------------------------------------------
\* 4. Lifting to an n-qubit register: qubit 0 is the least significant bit of the register
\*    index; the j-th listed qubit of the gate is bit (k - j) of the gate-local index.

RECURSIVE SubIdx(_, _, _)
SubIdx(r, qs, j) == IF j > Len(qs) THEN 0
                    ELSE Bit(r, qs[j]) * Pow2(Len(qs) - j) + SubIdx(r, qs, j + 1)
Agree(r, c, qs, n) == \A q \in 0..n-1 : (\E j \in DOMAIN qs : qs[j] = q) \/ Bit(r, q) = Bit(c, q)
Lift(M, qs, n) == LET sub == [r \in 0..Pow2(n)-1 |-> SubIdx(r, qs, 1)] IN
                  Mat(Pow2(n), LAMBDA r, c : IF Agree(r, c, qs, n) THEN M[sub[r]][sub[c]] ELSE Z)
U(g, n) == LET L == Local(g) IN Lift(L, g.qs, n)

Sparse(M) == {<<r, c, M[r][c]>> : r \in DOMAIN M, c \in DOMAIN M}
             \ {<<r, c, Z>> : r \in DOMAIN M, c \in DOMAIN M}

----------------------------------------------------------------------------
\* 5. The property in the words of the statement, on full-register matrices.

Delta(r, c) == IF r = c THEN O ELSE Z

\* C14, first half: on qubits s+k-1, ..., s (adjacent, listed from high to low) an unmodified
\*      gate is the Kronecker product  Id (x) Table (x) Id_{2^s}  -- written with div / mod on the
\*      register index, without Bit / SubIdx, so that it does not repeat the definition of Lift
AdjacentDescending(qs) == \A j \in DOMAIN qs : qs[j] = qs[1] - (j - 1)
KronLaw(g, n) == (g.mods = <<>> /\ AdjacentDescending(g.qs)) =>
  LET k == Len(g.qs)  lo == Pow2(g.qs[k])  T == Std(g.name, 1)  G == U(g, n) IN
  \A r, c \in 0..Pow2(n)-1 :
    G[r][c] = IF r % lo = c % lo /\ r \div (lo * Pow2(k)) = c \div (lo * Pow2(k))
                    THEN T[(r \div lo) % Pow2(k)][(c \div lo) % Pow2(k)] ELSE Z
\* C14, second half: every other placement is a relabelling of such a placement (Equivariant below,
\*      checked for the adjacent transpositions, which generate all relabellings)

\* the gate below the outermost modifier
Inner(g)  == [g EXCEPT !.mods = Tail(g.mods),
                       !.qs = IF Head(g.mods) = "DAGGER" THEN g.qs ELSE Tail(g.qs)]
\* FORKED: the two alternatives (first / second half of the parameters); k0 shifts the formal indices
UHalf(g, n, which) == LET i == Inner(g) IN
  Lift(GateMat(i.name, i.mods, 1 + which * (g.np \div 2), g.np \div 2), i.qs, n)

\* C15: DAGGER conjugate-transposes; CONTROLLED acts as the identity where the leading qubit is 0
\*      and as the inner gate where it is 1; FORKED selects the first / second parameter half
ModifierLaw(g, n) == g.mods # <<>> =>
  LET m == Head(g.mods)  q == Head(g.qs)  G == U(g, n)
      GI == U(Inner(g), n)  G0 == UHalf(g, n, 0)  G1 == UHalf(g, n, 1) IN
  \A r, c \in 0..Pow2(n)-1 :
    CASE m = "DAGGER" -> G[r][c] = Conj(GI[c][r])
      [] m = "CONTROLLED" ->
           G[r][c] = IF Bit(r, q) # Bit(c, q) THEN Z
                     ELSE IF Bit(r, q) = 0 THEN Delta(r, c) ELSE GI[r][c]
      [] m = "FORKED" ->
           G[r][c] = IF Bit(r, q) # Bit(c, q) THEN Z
                     ELSE IF Bit(r, q) = 0 THEN G0[r][c] ELSE G1[r][c]

\* model-level sanity of Lift: relabelling the register by a permutation pi of qubit numbers
\* permutes the basis accordingly (used with pi = reversal in the MC module)
RECURSIVE Relabel(_, _, _)
Relabel(r, pi, n) == IF n = 0 THEN 0 ELSE Bit(r, n - 1) * Pow2(pi[n - 1]) + Relabel(r, pi, n - 1)
Equivariant(g, n, pi) ==
  LET g2 == [g EXCEPT !.qs = [j \in DOMAIN g.qs |-> pi[g.qs[j]]]]
      G == U(g, n)  G2 == U(g2, n)
      R == [r \in 0..Pow2(n)-1 |-> Relabel(r, pi, n)] IN
  \A r, c \in 0..Pow2(n)-1 : G[r][c] = G2[R[r]][R[c]]

Transposition(a, n) == [q \in 0..n-1 |-> IF q = a THEN a + 1 ELSE IF q = a + 1 THEN a ELSE q]
EquivariantAll(g, n) == \A a \in 0..n-2 : Equivariant(g, n, Transposition(a, n))

RowCount(M, r) == Cardinality({c \in DOMAIN M : M[r][c] # Z})
\* a lifted matrix has one non-zero per row iff the local one has (permutation-like gates stay so)
MonomialPreserved(g, n) ==
  LET L == Local(g)  G == U(g, n) IN
  (\A r \in DOMAIN L : RowCount(L, r) = 1) => (\A r \in DOMAIN G : RowCount(G, r) = 1)

----------------------------------------------------------------------------
\* 7 (placed before 6 because the invariants of 6 use it). Exact evaluation in GF(991^2).
\* 991 = 7 (mod 8): -1 is a non-residue (GF(991)[i] is a field, conjugation a + bi -> a - bi is
\* its Frobenius automorphism, so |z|^2 = z * conj z behaves as over C) and 2 is a residue
\* (1/sqrt2 exists in the prime field).  theta_k is represented by a generic point (c_k, s_k) of
\* the unit circle c^2 + s^2 = 1, standing for (cos theta_k/2, sin theta_k/2).

Q == 991
RECURSIVE PowQ(_, _)
PowQ(x, e) == IF e = 0 THEN 1 ELSE LET hlf == PowQ(x, e \div 2) IN
              IF e % 2 = 0 THEN (hlf * hlf) % Q ELSE (((hlf * hlf) % Q) * x) % Q
InvQ(x) == PowQ(x % Q, Q - 2)
Neg(a) == (Q - (a % Q)) % Q
Hq == CHOOSE x \in 1..(Q - 1) \div 2 : (2 * x * x) % Q = 1           \* 1/sqrt2
MaxParamIndex == 32
\* rational parametrisation of the circle with t = k + 1
CosHalf == [k \in 1..MaxParamIndex |-> ((1 + Neg((k + 1) * (k + 1))) * InvQ(1 + (k + 1) * (k + 1))) % Q]
SinHalf == [k \in 1..MaxParamIndex |-> ((2 * (k + 1)) * InvQ(1 + (k + 1) * (k + 1))) % Q]

CAdd(x, y) == <<(x[1] + y[1]) % Q, (x[2] + y[2]) % Q>>
CMul(x, y) == <<(x[1] * y[1] + Neg(x[2] * y[2])) % Q, (x[1] * y[2] + x[2] * y[1]) % Q>>
CConj(x)   == <<x[1], Neg(x[2])>>
CZero == <<0, 0>>
COne  == <<1, 0>>

Val(e) ==
  LET k == e.p IN
  CASE e.s = "0" -> CZero [] e.s = "1" -> COne [] e.s = "-1" -> <<Q - 1, 0>>
    [] e.s = "i" -> <<0, 1>> [] e.s = "-i" -> <<0, Q - 1>>
    [] e.s = "h" -> <<Hq, 0>> [] e.s = "-h" -> <<Neg(Hq), 0>>
    [] e.s = "t" -> <<Hq, Hq>> [] e.s = "t_conj" -> <<Hq, Neg(Hq)>>
    [] e.s = "cos_half" -> <<CosHalf[k], 0>>
    [] e.s = "sin_half" -> <<SinHalf[k], 0>> [] e.s = "-sin_half" -> <<Neg(SinHalf[k]), 0>>
    [] e.s = "-isin_half" -> <<0, Neg(SinHalf[k])>> [] e.s = "isin_half" -> <<0, SinHalf[k]>>
    [] e.s = "cis_half" -> <<CosHalf[k], SinHalf[k]>>
    [] e.s = "cis_half_conj" -> <<CosHalf[k], Neg(SinHalf[k])>>
    [] e.s = "cis" -> CMul(<<CosHalf[k], SinHalf[k]>>, <<CosHalf[k], SinHalf[k]>>)
    [] e.s = "cis_conj" -> CMul(<<CosHalf[k], Neg(SinHalf[k])>>, <<CosHalf[k], Neg(SinHalf[k])>>)

\* the conjugation of symbols is the conjugation of values (checked once, constant level)
ConjSound == \A e \in {Sym(x) : x \in ConstNames} \cup {P(f, k) : f \in ParamNames, k \in 1..4} :
               Val(Conj(e)) = CConj(Val(e)) /\ Conj(Conj(e)) = e

VMat(M) == [r \in DOMAIN M |-> [c \in DOMAIN M |-> Val(M[r][c])]]
RECURSIVE DotFrom(_, _, _, _, _)
\* sum over k >= from of A[r][k] * B[k][c]
DotFrom(A, B, r, c, from) == IF from >= Dim(A) THEN CZero
                             ELSE CAdd(CMul(A[r][from], B[from][c]), DotFrom(A, B, r, c, from + 1))
VMul(A, B) == [r \in DOMAIN A |-> [c \in DOMAIN A |-> DotFrom(A, B, r, c, 0)]]   \* A, B must be LET-bound values
VAdj(A)    == [r \in DOMAIN A |-> [c \in DOMAIN A |-> CConj(A[c][r])]]
VId(d)     == [r \in 0..d-1 |-> [c \in 0..d-1 |-> IF r = c THEN COne ELSE CZero]]
IsUnitaryV(A) == LET B == VAdj(A) IN VMul(A, B) = VId(Dim(A))

\* a program is a sequence of gates; its unitary is the ordered product, LAST gate leftmost
RECURSIVE ProgV(_, _)
ProgV(gs, n) == IF gs = <<>> THEN VId(Pow2(n))
                ELSE LET A == VMat(U(gs[Len(gs)], n))  B == ProgV(SubSeq(gs, 1, Len(gs) - 1), n)
                     IN VMul(A, B)
\* Program::dagger: reversed order, DAGGER prepended to every gate
DaggerGate(g) == [g EXCEPT !.mods = <<"DAGGER">> \o g.mods]
DaggerProg(gs) == [j \in DOMAIN gs |-> DaggerGate(gs[Len(gs) + 1 - j])]

----------------------------------------------------------------------------
\* 6. The builder state machine.  `cur` is the gate under construction (Opt), `prog` the program
\*    built so far, `n` the register size.  One action per public call.

VARIABLES n, cur, prog
bvars == <<n, cur, prog>>

BInit(nn) == n = nn /\ cur = None /\ prog = <<>>

Free(q) == q \in 0..n-1 /\ (IsSome(cur) => \A j \in DOMAIN cur.some.qs : cur.some.qs[j] # q)

\* Gate::new(name, params, qubits, [])
NewGate(name, qs) ==
  /\ IsNone(cur)
  /\ cur' = Some(GateRec(name, <<>>, qs, NParams(name)))
  /\ UNCHANGED <<n, prog>>
\* Gate::dagger
ApplyDagger ==
  /\ IsSome(cur)
  /\ cur' = Some([cur.some EXCEPT !.mods = <<"DAGGER">> \o @])
  /\ UNCHANGED <<n, prog>>
\* Gate::controlled(q)
ApplyControlled(q) ==
  /\ IsSome(cur) /\ Free(q)
  /\ cur' = Some([cur.some EXCEPT !.mods = <<"CONTROLLED">> \o @, !.qs = <<q>> \o @])
  /\ UNCHANGED <<n, prog>>
\* Gate::forked(q, alt): alt has as many parameters as the gate already has; they are appended
ApplyForked(q) ==
  /\ IsSome(cur) /\ Free(q)
  /\ cur' = Some([cur.some EXCEPT !.mods = <<"FORKED">> \o @, !.qs = <<q>> \o @, !.np = 2 * @])
  /\ UNCHANGED <<n, prog>>
\* Program::add_instruction(Instruction::Gate(cur))
AppendGate ==
  /\ IsSome(cur)
  /\ prog' = Append(prog, cur.some) /\ cur' = None
  /\ UNCHANGED n

BIdle == n = 0 /\ cur = None /\ prog = <<>>

\* invariants of the builder: every reachable gate value is one the property speaks about,
\* its matrix obeys the laws of part 5 and is unitary; programs obey the product / adjoint laws
CurWellFormed   == IsSome(cur) => WellFormed(cur.some)
CurKronLaw      == IsSome(cur) => KronLaw(cur.some, n)
CurModifierLaw  == IsSome(cur) => ModifierLaw(cur.some, n)
CurMonomial     == IsSome(cur) => MonomialPreserved(cur.some, n)
CurEquivariant  == IsSome(cur) => EquivariantAll(cur.some, n)
CurUnitary      == IsSome(cur) => LET A == VMat(Local(cur.some)) IN IsUnitaryV(A)
CurLiftUnitary  == IsSome(cur) => LET A == VMat(U(cur.some, n)) IN IsUnitaryV(A)
CurDaggerTwice  == IsSome(cur) => Local(DaggerGate(DaggerGate(cur.some))) = Local(cur.some)
\* (judged in the states where no gate is under construction: the others have the same program)
ProgUnitary     == IsNone(cur) => LET A == ProgV(prog, n) IN IsUnitaryV(A)
ProgDaggerAdjoint == IsNone(cur) => LET A == ProgV(prog, n) IN ProgV(DaggerProg(prog), n) = VAdj(A)
ProgDaggerShape == /\ Len(DaggerProg(prog)) = Len(prog)
                   /\ \A j \in DOMAIN prog : /\ Head(DaggerProg(prog)[j].mods) = "DAGGER"
                                             /\ WellFormed(DaggerProg(prog)[j])

----------------------------------------------------------------------------
\* 8. The lifting algorithm of the code (lifted_gate_matrix = perm^dagger . adjacent-lift . perm,
\*    with perm built by permutation_arbitrary / two_swap_helper) as a state machine, and the
\*    refinement "what the algorithm computes is Lift of part 4".
\*
\*    arr   : qubit_arr, position -> qubit currently sitting there (0-based function)
\*    right : direction of the current sweep
\*    at    : how many elements of the current sweep have been handled
\*    lph   : "swap" while the while-loop runs, "done" afterwards
\*    The accumulated permutation matrix is determined by arr: the adjacent SWAP at positions
\*    (p, p+1) exchanges bits p, p+1 of the basis index, so after all swaps bit pos of perm(x)
\*    is bit arr[pos] of x.

VARIABLES lqs, ln, arr, right, at, lph, steps
lvars == <<lqs, ln, arr, right, at, lph, steps>>

RECURSIVE Ascending(_)
Ascending(s) == IF s = <<>> THEN <<>>
              ELSE LET m == Min(Range(s)) IN <<m>> \o Ascending(SelectSeq(s, LAMBDA x : x # m))
LK == Len(lqs)
MedI == LK \div 2
Start == Ascending(lqs)[MedI + 1] - MedI            \* med - med_i (u64 subtraction in the code)
FinalMap(i) == Start + LK - i                     \* 1-based i: (start..start+k).rev()[i-1]
PosOf(a, q) == CHOOSE p \in DOMAIN a : a[p] = q
\* two_swap_helper(j, k): the element at position j is moved to position k by adjacent swaps
Move(a, j, k) == [p \in DOMAIN a |->
                    IF j > k THEN (IF p = k THEN a[j] ELSE IF p > k /\ p <= j THEN a[p - 1] ELSE a[p])
                    ELSE IF j < k THEN (IF p = k THEN a[j] ELSE IF p >= j /\ p < k THEN a[p + 1] ELSE a[p])
                    ELSE a[p]]
MadeIt(a) == \A i \in 1..LK : a[FinalMap(i)] = lqs[i]

LInit(qs, nn) == /\ lqs = qs /\ ln = nn /\ arr = [p \in 0..nn-1 |-> p] /\ right = TRUE /\ at = 0
                 /\ steps = 0
                 /\ lph = IF Len(qs) > 1 THEN "swap" ELSE "done"
LIdle == lqs = <<>> /\ ln = 0 /\ arr = <<>> /\ right = TRUE /\ at = 0 /\ steps = 0 /\ lph = "idle"
\* one iteration of `for i in array`
SwapStep ==
  /\ lph = "swap"
  /\ LET i == IF right THEN at + 1 ELSE LK - at
         a2 == Move(arr, PosOf(arr, lqs[i]), FinalMap(i)) IN
     /\ arr' = a2 /\ steps' = steps + 1
     /\ IF MadeIt(a2) THEN lph' = "done" /\ UNCHANGED <<right, at>>
        ELSE IF at + 1 = LK THEN right' = ~right /\ at' = 0 /\ UNCHANGED lph
        ELSE at' = at + 1 /\ UNCHANGED <<right, lph>>
  /\ UNCHANGED <<lqs, ln>>

\* what perm^dagger . (I (x) M (x) I_{2^start}) . perm is, entry by entry, given arr
Window(r) == LET RECURSIVE W(_)
                 W(j) == IF j > LK THEN 0 ELSE Bit(r, arr[Start + LK - j]) * Pow2(LK - j) + W(j + 1)
             IN W(1)
OutsideAgree(r, c) == \A p \in 0..ln-1 : (p >= Start /\ p < Start + LK) \/ Bit(r, arr[p]) = Bit(c, arr[p])
CodeLift(M) == Mat(Pow2(ln), LAMBDA r, c : IF OutsideAgree(r, c) THEN M[Window(r)][Window(c)] ELSE Z)
\* a matrix whose entries are all different: equality on it is equality of the index maps
Generic(k) == Mat(Pow2(k), LAMBDA r, c : [s |-> "m", p |-> r * Pow2(k) + c + 1])

ArrIsPermutation == \A q \in 0..ln-1 : \E p \in DOMAIN arr : arr[p] = q
WindowInRange    == Start >= 0 /\ Start + LK <= ln          \* no u64 underflow in start / top_qubits
SweepBound       == steps <= 2 * LK                         \* the while-loop ends within two sweeps
LiftRefines      == lph = "done" => CodeLift(Generic(LK)) = Lift(Generic(LK), lqs, ln)
\* the same refinement on the index maps only (linear in the register dimension): the window reads
\* the listed qubits in listed order, most significant first, and every other qubit stays outside
LiftRefinesIdx   == lph = "done" =>
                      /\ \A r \in 0..Pow2(ln)-1 : Window(r) = SubIdx(r, lqs, 1)
                      /\ {arr[p] : p \in {p \in 0..ln-1 : p < Start \/ p >= Start + LK}}
                           = (0..ln-1) \ Range(lqs)
=============================================================================
