----------------------------- MODULE ExprSimplify -----------------------------
(***************************************************************************)
(* The expression simplifier of quil-rs                                    *)
(*   quil-rs/src/expression/simplification/by_hand.rs                      *)
(*   (Simplifier::simplify, simplify_function_call, simplify_infix,        *)
(*    simplify_prefix, size, smaller, mul_matches, LIMIT)                  *)
(* and its contract (property C12): the simplified form has the same value *)
(* wherever the original is finite, mentions no new variable or address,   *)
(* and is never the constant pi.                                           *)
(*                                                                         *)
(* Numbers are elements of GF(1009) (ExprAbs): [t |-> "num", n |-> k],     *)
(* k = 1009 is NaN.  + - * / and negation are exact, so every structural   *)
(* rule is judged exactly; constant folding uses the same maps as Eval, so *)
(* folding through ^ and the functions is consistent by construction and   *)
(* its numeric correctness is judged by the harness in floating point.     *)
(*                                                                         *)
(* Every arm of the three `match` statements is a named rule, in the order *)
(* of the code: `ArmOf` is the sequence of guards, `ApplyInfix` the        *)
(* right-hand sides.  The state machine simplifies the children first      *)
(* (action Children, as the code does before matching) and then fires      *)
(* exactly one arm action, so TLC's per-action coverage is a per-rule      *)
(* coverage and a counterexample names the unsound rule.                   *)
(* (The memoisation cache of Simplifier is not modelled: it is keyed by    *)
(* the expression only and is transparent unless the limit runs out.)      *)
(***************************************************************************)
EXTENDS ExprAbs

\* Deviations reproduce the code as it was before a repair (off in shipped configurations):
\*   "ZeroPowZeroIsZero":  0^x -> 0 is tried before x^0 -> 1          (before /repo commit bc0996a)
\*   "OrigCandidateIsProduct": a/(-b) and (-a)/b compare against the candidate a*(-b), (-a)*b
\*                                                                      (before /repo commit e0199ae)
\*   "LeftAssocWrongOperators": (a-b)-c -> a+(b-c), (a/b)/c -> a*(b/c) (before /repo commit 07f8ac2)
CONSTANT Deviations

Limit == 10                                   \* const LIMIT
Lm(lim) == IF lim = 0 THEN 0 ELSE lim - 1     \* saturating `limit - 1`

Smaller(a, b) == IF Size(a) <= Size(b) THEN a ELSE b    \* min_by_key keeps the first on ties
IsZ(e) == IsNum(e) /\ e.n = 0                 \* is_zero (NaN is not zero)
IsO(e) == IsNum(e) /\ e.n = 1                 \* is_one
MulMatches(a, b) == /\ IsInf(a, "*") /\ IsInf(b, "*")
                    /\ (a.l = b.l \/ a.l = b.r \/ a.r = b.l \/ a.r = b.r)
MinusOne == GNum(P - 1)

\* ---- simplify_infix: the guards, in match order --------------------------------------------------
ArmOf(l, op, r) ==
  CASE op = "+" /\ IsZ(l) -> "add_zero_l"
    [] op = "+" /\ IsZ(r) -> "add_zero_r"
    [] op = "-" /\ IsZ(l) -> "sub_zero_l"
    [] op = "-" /\ IsZ(r) -> "sub_zero_r"
    [] op = "-" /\ l = r -> "sub_same"
    [] op = "*" /\ (IsZ(l) \/ IsZ(r)) -> "mul_zero"
    [] op = "*" /\ IsO(l) -> "mul_one_l"
    [] op = "*" /\ IsO(r) -> "mul_one_r"
    [] op = "/" /\ IsZ(l) -> "div_zero_l"
    [] op = "/" /\ IsZ(r) -> "div_by_zero"
    [] op = "/" /\ IsO(r) -> "div_one"
    [] op = "/" /\ l = r -> "div_same"
    [] op = "^" /\ IsZ(l) /\ "ZeroPowZeroIsZero" \in Deviations -> "pow_zero_base"
    [] op = "^" /\ IsZ(r) -> "pow_zero_exp"
    [] op = "^" /\ IsZ(l) -> "pow_zero_base"
    [] op = "^" /\ IsO(l) -> "pow_one_base"
    [] op = "^" /\ IsO(r) -> "pow_one_exp"
    [] IsNum(l) /\ IsNum(r) -> "fold"
    [] op = "+" /\ IsNeg(r) -> "add_neg_r"
    [] op = "+" /\ IsNeg(l) -> "add_neg_l"
    [] op = "-" /\ IsNeg(r) -> "sub_neg_r"
    [] op = "-" /\ IsNeg(l) -> "sub_neg_l"
    [] op \in {"*", "/"} /\ IsNeg(l) /\ IsNeg(r) -> "muldiv_neg_both"
    [] op = "/" /\ IsNeg(r) /\ l = r.e -> "div_neg_same_r"
    [] op = "/" /\ IsNeg(l) /\ l.e = r -> "div_neg_same_l"
    [] op \in {"*", "/"} /\ IsNeg(r) -> "muldiv_neg_r"
    [] op \in {"*", "/"} /\ IsNeg(l) -> "muldiv_neg_l"
    [] op = "+" /\ IsInf(l, "+") /\ IsInf(r, "+") /\ MulMatches(l.l, r.l) -> "affine"
    [] op = "+" /\ IsInf(l, "*") /\ IsInf(r, "*") /\ l.r = r.r -> "factor_right"
    [] op = "+" /\ IsInf(l, "+") /\ IsInf(r, "+") /\ l.l = r.l -> "double_x"
    [] op \in {"+", "*"} /\ IsInf(r, op) -> "assoc_r"
    [] op \in {"-", "/"} /\ IsInf(r, op) -> "assoc_r_inverse"
    [] op \in {"+", "*", "-", "/"} /\ IsInf(l, op) -> "assoc_l"
    [] op = "*" /\ IsInf(r, "+") -> "distribute_r"
    [] op = "*" /\ IsInf(l, "+") -> "distribute_l"
    [] op = "/" /\ IsInf(l, "*") /\ (r = l.l \/ r = l.r) -> "div_mul_cancel_l"
    [] op = "/" /\ IsInf(r, "*") /\ (l = r.l \/ l = r.r) -> "div_mul_cancel_r"
    [] op = "/" /\ IsInf(l, "*") -> "div_mul_l"
    [] op = "/" /\ IsInf(r, "*") -> "div_mul_r"
    [] op = "*" /\ IsInf(l, "/") /\ l.r = r -> "mul_div_cancel_l"
    [] op = "*" /\ IsInf(r, "/") /\ l = r.r -> "mul_div_cancel_r"
    [] OTHER -> "keep"

InfixArms == {"add_zero_l", "add_zero_r", "sub_zero_l", "sub_zero_r", "sub_same", "mul_zero", "mul_one_l",
              "mul_one_r", "div_zero_l", "div_by_zero", "div_one", "div_same", "pow_zero_exp", "pow_zero_base",
              "pow_one_base", "pow_one_exp", "fold", "add_neg_r", "add_neg_l", "sub_neg_r", "sub_neg_l",
              "muldiv_neg_both", "div_neg_same_r", "div_neg_same_l", "muldiv_neg_r", "muldiv_neg_l", "affine",
              "factor_right", "double_x", "assoc_r", "assoc_r_inverse", "assoc_l", "distribute_r", "distribute_l",
              "div_mul_cancel_l", "div_mul_cancel_r", "div_mul_l", "div_mul_r", "mul_div_cancel_l",
              "mul_div_cancel_r", "keep"}

RECURSIVE S(_, _), ApplyInfix(_, _, _, _, _)

\* simplify_prefix, after the operand has been simplified
PrefixArmOf(t, e) == IF t = "pos" THEN "pos_drop"
                     ELSE IF IsNum(e) THEN "neg_number" ELSE IF IsNeg(e) THEN "neg_neg" ELSE "neg_keep"
ApplyPrefix(arm, e) == CASE arm = "pos_drop"   -> e
                         [] arm = "neg_number" -> GNum(NegV(e.n))
                         [] arm = "neg_neg"    -> e.e
                         [] arm = "neg_keep"   -> Neg(e)
\* simplify_function_call, after the argument has been simplified
FnArmOf(e) == IF IsNum(e) THEN "fn_fold" ELSE "fn_keep"
ApplyFn(arm, f, e) == IF arm = "fn_fold" THEN GNum(FnV(f, e.n)) ELSE Fn(f, e)

\* Simplifier::simplify
S(e, lim) ==
  IF e.t = "pi" THEN GNum(PiVal)                       \* even at limit 0
  ELSE IF lim = 0 THEN e
  ELSE CASE e.t \in {"num", "var", "addr"} -> e
         [] e.t = "fn"  -> (LET a == S(e.e, Lm(lim)) IN ApplyFn(FnArmOf(a), e.f, a))
         [] e.t = "inf" -> (LET l == S(e.l, Lm(lim))  r == S(e.r, Lm(lim)) IN
                            ApplyInfix(ArmOf(l, e.op, r), l, e.op, r, Lm(lim)))
         [] e.t \in {"neg", "pos"} -> (LET a == S(e.e, Lm(lim)) IN ApplyPrefix(PrefixArmOf(e.t, a), a))

\* ---- simplify_infix: the right-hand sides (l, r already simplified; lim is simplify_infix's `limit`) ----
ApplyInfix(arm, l, op, r, lim) ==
  LET L1 == Lm(lim)
      orig == Inf(l, op, r) IN
  CASE arm = "add_zero_l" -> r
    [] arm = "add_zero_r" -> l
    [] arm = "sub_zero_l" -> S(Neg(r), L1)
    [] arm = "sub_zero_r" -> l
    [] arm = "sub_same"   -> GNum(0)
    [] arm = "mul_zero"   -> GNum(0)
    [] arm = "mul_one_l"  -> r
    [] arm = "mul_one_r"  -> l
    [] arm = "div_zero_l" -> GNum(0)
    [] arm = "div_by_zero" -> GNum(NaN)
    [] arm = "div_one"    -> l
    [] arm = "div_same"   -> GNum(1)
    [] arm = "pow_zero_exp"  -> GNum(1)
    [] arm = "pow_zero_base" -> GNum(0)
    [] arm = "pow_one_base"  -> GNum(1)
    [] arm = "pow_one_exp"   -> l
    [] arm = "fold"       -> GNum(Calc(l.n, op, r.n))
    [] arm = "add_neg_r"  -> S(Inf(l, "-", r.e), L1)
    [] arm = "add_neg_l"  -> S(Inf(r, "-", l.e), L1)
    [] arm = "sub_neg_r"  -> S(Inf(l, "+", r.e), L1)
    [] arm = "sub_neg_l"  -> Smaller(orig, S(Neg(S(Inf(l.e, "+", r), L1)), L1))
    [] arm = "muldiv_neg_both" -> S(Inf(l.e, op, r.e), L1)
    [] arm = "div_neg_same_r"  -> MinusOne
    [] arm = "div_neg_same_l"  -> MinusOne
    [] arm = "muldiv_neg_r" ->
         Smaller(IF "OrigCandidateIsProduct" \in Deviations THEN Inf(l, "*", r) ELSE orig,
                 S(Inf(S(Neg(l), L1), op, r.e), L1))
    [] arm = "muldiv_neg_l" ->
         Smaller(IF "OrigCandidateIsProduct" \in Deviations THEN Inf(l, "*", r) ELSE orig,
                 S(Inf(l.e, op, S(Neg(r), L1)), L1))
    [] arm = "affine" ->
         (LET ll == l.l.l  lr == l.l.r  rl == r.l.l  rr == r.l.r
              pick == IF ll = rl THEN <<lr, rr, ll>> ELSE IF ll = rr THEN <<lr, rl, ll>>
                      ELSE IF lr = rl THEN <<ll, rr, lr>> ELSE <<ll, rl, rr>>
              sumAs == S(Inf(pick[1], "+", pick[2]), L1)
              sumBs == S(Inf(l.r, "+", r.r), L1)
              mulAsX == S(Inf(sumAs, "*", pick[3]), L1)
          IN S(Inf(mulAsX, "+", sumBs), L1))
    [] arm = "factor_right" -> S(Inf(S(Inf(l.l, "+", r.l), L1), "*", l.r), L1)
    [] arm = "double_x" ->
         S(Inf(S(Inf(GNum(2), "*", l.l), L1), "+", S(Inf(l.r, "+", r.r), L1)), L1)
    [] arm = "assoc_r" -> Smaller(orig, S(Inf(S(Inf(l, op, r.l), L1), op, r.r), L1))
    [] arm = "assoc_r_inverse" ->
         (LET inverse == IF op = "-" THEN "+" ELSE "*" IN
          Smaller(orig, S(Inf(S(Inf(l, inverse, r.r), L1), op, r.l), L1)))
    [] arm = "assoc_l" ->
         (LET rhsOp == IF op = "-" THEN "+" ELSE IF op = "/" THEN "*" ELSE op
              bc  == IF "LeftAssocWrongOperators" \in Deviations THEN S(Inf(l.r, op, r), L1)
                     ELSE S(Inf(l.r, rhsOp, r), L1)
              new == IF "LeftAssocWrongOperators" \in Deviations THEN S(Inf(l.l, rhsOp, bc), L1)
                     ELSE S(Inf(l.l, op, bc), L1)
          IN Smaller(orig, new))
    [] arm = "distribute_r" ->
         Smaller(orig, S(Inf(S(Inf(l, "*", r.l), L1), "+", S(Inf(l, "*", r.r), L1)), L1))
    [] arm = "distribute_l" ->
         Smaller(orig, S(Inf(S(Inf(l.l, "*", r), L1), "+", S(Inf(l.r, "*", r), L1)), L1))
    [] arm = "div_mul_cancel_l" -> (IF r = l.l THEN l.r ELSE l.l)
    [] arm = "div_mul_cancel_r" -> (IF l = r.l THEN S(Inf(GNum(1), "/", r.r), L1)
                                    ELSE S(Inf(GNum(1), "/", r.l), L1))
    [] arm = "div_mul_l" -> Smaller(orig, S(Inf(l.l, "*", S(Inf(l.r, "/", r), L1)), L1))
    [] arm = "div_mul_r" -> Smaller(orig, S(Inf(S(Inf(l, "/", r.l), L1), "/", r.r), L1))
    [] arm = "mul_div_cancel_l" -> l.l
    [] arm = "mul_div_cancel_r" -> r.l
    [] arm = "keep" -> orig

\* simplification::run / Expression::simplify
Simplify(e) == S(e, Limit)

----------------------------------------------------------------------------
\* The state machine: Children (the recursive calls on the operands), then exactly one arm.

VARIABLES tree,    \* the input expression
          phase,   \* "gen" | "kids" | "done"
          sl, sr,  \* simplified operands (sr = sl for unary nodes; both = tree for atoms)
          arm,     \* the arm selected by the guards
          out      \* the result
vars == <<tree, phase, sl, sr, arm, out>>

Fresh(e) == tree = e /\ phase = "gen" /\ sl = e /\ sr = e /\ arm = "" /\ out = e

Children ==
  /\ phase = "gen" /\ phase' = "kids" /\ UNCHANGED <<tree, out>>
  /\ CASE tree.t = "pi" -> sl' = tree /\ sr' = tree /\ arm' = "pi_number"
       [] tree.t \in {"num", "var", "addr"} -> sl' = tree /\ sr' = tree /\ arm' = "atom"
       [] tree.t = "fn" -> (LET a == S(tree.e, Limit - 1) IN sl' = a /\ sr' = a /\ arm' = FnArmOf(a))
       [] tree.t \in {"neg", "pos"} ->
            (LET a == S(tree.e, Limit - 1) IN sl' = a /\ sr' = a /\ arm' = PrefixArmOf(tree.t, a))
       [] tree.t = "inf" ->
            (LET l == S(tree.l, Limit - 1)  r == S(tree.r, Limit - 1) IN
             sl' = l /\ sr' = r /\ arm' = ArmOf(l, tree.op, r))

\* (each arm action is a conjunction of its own, so that TLC's coverage lists it under its name)
FireWith(value) == /\ phase = "kids" /\ out' = value /\ phase' = "done"
                   /\ UNCHANGED <<tree, sl, sr, arm>>
FireInfix == FireWith(ApplyInfix(arm, sl, tree.op, sr, Limit - 1))

A_pi_number  == arm = "pi_number"  /\ FireWith(GNum(PiVal))
A_atom       == arm = "atom"       /\ FireWith(tree)
A_fn_fold    == arm = "fn_fold"    /\ FireWith(ApplyFn(arm, tree.f, sl))
A_fn_keep    == arm = "fn_keep"    /\ FireWith(ApplyFn(arm, tree.f, sl))
A_pos_drop   == arm = "pos_drop"   /\ FireWith(ApplyPrefix(arm, sl))
A_neg_number == arm = "neg_number" /\ FireWith(ApplyPrefix(arm, sl))
A_neg_neg    == arm = "neg_neg"    /\ FireWith(ApplyPrefix(arm, sl))
A_neg_keep   == arm = "neg_keep"   /\ FireWith(ApplyPrefix(arm, sl))
A_add_zero_l == arm = "add_zero_l" /\ FireInfix
A_add_zero_r == arm = "add_zero_r" /\ FireInfix
A_sub_zero_l == arm = "sub_zero_l" /\ FireInfix
A_sub_zero_r == arm = "sub_zero_r" /\ FireInfix
A_sub_same == arm = "sub_same" /\ FireInfix
A_mul_zero == arm = "mul_zero" /\ FireInfix
A_mul_one_l == arm = "mul_one_l" /\ FireInfix
A_mul_one_r == arm = "mul_one_r" /\ FireInfix
A_div_zero_l == arm = "div_zero_l" /\ FireInfix
A_div_by_zero == arm = "div_by_zero" /\ FireInfix
A_div_one == arm = "div_one" /\ FireInfix
A_div_same == arm = "div_same" /\ FireInfix
A_pow_zero_exp == arm = "pow_zero_exp" /\ FireInfix
A_pow_zero_base == arm = "pow_zero_base" /\ FireInfix
A_pow_one_base == arm = "pow_one_base" /\ FireInfix
A_pow_one_exp == arm = "pow_one_exp" /\ FireInfix
A_fold == arm = "fold" /\ FireInfix
A_add_neg_r == arm = "add_neg_r" /\ FireInfix
A_add_neg_l == arm = "add_neg_l" /\ FireInfix
A_sub_neg_r == arm = "sub_neg_r" /\ FireInfix
A_sub_neg_l == arm = "sub_neg_l" /\ FireInfix
A_muldiv_neg_both == arm = "muldiv_neg_both" /\ FireInfix
A_div_neg_same_r == arm = "div_neg_same_r" /\ FireInfix
A_div_neg_same_l == arm = "div_neg_same_l" /\ FireInfix
A_muldiv_neg_r == arm = "muldiv_neg_r" /\ FireInfix
A_muldiv_neg_l == arm = "muldiv_neg_l" /\ FireInfix
A_affine == arm = "affine" /\ FireInfix
A_factor_right == arm = "factor_right" /\ FireInfix
A_double_x == arm = "double_x" /\ FireInfix
A_assoc_r == arm = "assoc_r" /\ FireInfix
A_assoc_r_inverse == arm = "assoc_r_inverse" /\ FireInfix
A_assoc_l == arm = "assoc_l" /\ FireInfix
A_distribute_r == arm = "distribute_r" /\ FireInfix
A_distribute_l == arm = "distribute_l" /\ FireInfix
A_div_mul_cancel_l == arm = "div_mul_cancel_l" /\ FireInfix
A_div_mul_cancel_r == arm = "div_mul_cancel_r" /\ FireInfix
A_div_mul_l == arm = "div_mul_l" /\ FireInfix
A_div_mul_r == arm = "div_mul_r" /\ FireInfix
A_mul_div_cancel_l == arm = "mul_div_cancel_l" /\ FireInfix
A_mul_div_cancel_r == arm = "mul_div_cancel_r" /\ FireInfix
A_keep == arm = "keep" /\ FireInfix

Arms == \/ A_pi_number \/ A_atom \/ A_fn_fold \/ A_fn_keep \/ A_pos_drop \/ A_neg_number \/ A_neg_neg
        \/ A_neg_keep \/ A_add_zero_l \/ A_add_zero_r \/ A_sub_zero_l \/ A_sub_zero_r \/ A_sub_same
        \/ A_mul_zero \/ A_mul_one_l \/ A_mul_one_r \/ A_div_zero_l \/ A_div_by_zero \/ A_div_one
        \/ A_div_same \/ A_pow_zero_exp \/ A_pow_zero_base \/ A_pow_one_base \/ A_pow_one_exp \/ A_fold
        \/ A_add_neg_r \/ A_add_neg_l \/ A_sub_neg_r \/ A_sub_neg_l \/ A_muldiv_neg_both
        \/ A_div_neg_same_r \/ A_div_neg_same_l \/ A_muldiv_neg_r \/ A_muldiv_neg_l \/ A_affine
        \/ A_factor_right \/ A_double_x \/ A_assoc_r \/ A_assoc_r_inverse \/ A_assoc_l \/ A_distribute_r
        \/ A_distribute_l \/ A_div_mul_cancel_l \/ A_div_mul_cancel_r \/ A_div_mul_l \/ A_div_mul_r
        \/ A_mul_div_cancel_l \/ A_mul_div_cancel_r \/ A_keep

----------------------------------------------------------------------------
\* The contract (C12), stated on (input, output) without reference to the rules.

Env(x, y, z, m, n) == [vars |-> [x |-> x, y |-> y, z |-> z], mem |-> [m |-> m, n |-> n]]
AllEnvs == << Env(123, 777, 310, <<901, 333>>, <<12, 640>>),
              Env(58, 901, 222, <<17, 808>>, <<499, 3>>),
              Env(640, 35, 871, <<404, 96>>, <<733, 250>>) >>
CONSTANT NEnvs
Envs == { AllEnvs[k] : k \in 1..NEnvs }

V(e, env) == Eval(e, env.vars, env.mem)
\* same value wherever the original is a number (NaN = not finite: the statement excludes it)
SoundAt(e, s, env) == V(e, env) = NaN \/ V(s, env) = V(e, env)
Sound(e, s)        == \A env \in Envs : SoundAt(e, s, env)
NamesOk(e, s)      == VarsOf(s) \subseteq VarsOf(e) /\ AddrsOf(s) \subseteq AddrsOf(e)
Contract(e, s)     == Sound(e, s) /\ NamesOk(e, s) /\ ~HasPi(s)

SimplifySound == phase = "done" => Sound(tree, out)
NoNewNames    == phase = "done" => NamesOk(tree, out)
NeverPi       == phase = "done" => ~HasPi(out)

\* per rule: the operands were simplified soundly, and the arm that fired preserves the value of the node
\* built from the simplified operands (so a counterexample whose last action is A_x blames rule x)
Rebuilt == CASE tree.t = "inf" -> Inf(sl, tree.op, sr)
             [] tree.t = "fn" -> Fn(tree.f, sl)
             [] tree.t \in {"neg", "pos"} -> [t |-> tree.t, e |-> sl]
             [] OTHER -> tree
OperandsSound == phase \in {"kids", "done"} =>
                   CASE tree.t = "inf" -> Sound(tree.l, sl) /\ Sound(tree.r, sr)
                     [] tree.t \in {"fn", "neg", "pos"} -> Sound(tree.e, sl)
                     [] OTHER -> TRUE
RuleSound     == phase = "done" => Sound(Rebuilt, out)
\* the step-wise machine computes the recursive definition
MachineIsSimplify == phase = "done" => out = Simplify(tree)
\* more than the statement asks: the result is never larger than the input
NoGrowth      == phase = "done" => Size(out) <= Size(tree)
=============================================================================
