---------------------------- MODULE ProgramModel ----------------------------
(***************************************************************************)
(* The quil-rs `Program` builder (quil-rs/src/program/mod.rs, frame.rs,    *)
(* calibration.rs, calibration_set.rs, instruction/extern_call.rs) as a    *)
(* state machine over two program registers A and B.  One action per       *)
(* public call; the observations (to_instructions, into_instructions,      *)
(* to_quil, ==, get_used_qubits, len) are operators on a program value.    *)
(*                                                                         *)
(* A program value is what the Rust struct holds:                          *)
(*   tbl   eight insertion-ordered keyed tables (IndexMap / CalibrationSet)*)
(*         -- sequences of instructions with pairwise distinct keys        *)
(*   body  Vec<Instruction>                                                *)
(*   used  the hand-maintained used_qubits cache (a set)                   *)
(* plus three ghost fields the code does not have:                         *)
(*   log    every instruction that ever flowed into this value, in order   *)
(*          (the "history" the order/last-value laws are stated against)   *)
(*   excl   reasons for which the `used` observable of this value is not   *)
(*          judged ("pullapart": DESIGN §6 C11; "kf16": known finding 16)  *)
(*   opaque TRUE for a value the model generator does not know (result of  *)
(*          an operation whose listing only the real code can supply)      *)
(*                                                                         *)
(* Instructions are abstract records                                       *)
(*   [id, k, key, text, qs]                                                *)
(* id   identity of the instruction (equal text <=> equal id)              *)
(* k    the table add_instruction routes it to, or "Body"                  *)
(* key  the table key (declaration name, frame identifier, waveform name,  *)
(*      calibration signature, gate / circuit name, extern name)           *)
(* text the Quil text of the real instruction: opaque to every operator    *)
(*      except ToQuil; it is what the harness parses                       *)
(* qs   the qubits the instruction mentions, as Instruction::get_qubits    *)
(*      counts them (gates, measurements, RESET q, DELAY, FENCE, PULSE,    *)
(*      CAPTURE, RAW-CAPTURE; calibration definitions = identifier qubits  *)
(*      + body qubits; nothing for every other kind)                       *)
(***************************************************************************)
EXTENDS Abs, TLC

CONSTANT Deviations
\* Named deviations reproduce the code as built before a repair / with a recorded finding:
\*   "StaleCacheOnReplace"             add_instruction never rebuilt the cache      (fixed 3b191a6)
\*   "IntoExternLast"                  into_instructions listed PRAGMA EXTERN last  (fixed 6f9e9b6)
\*   "HashOrderedFrames"               FrameSet was a HashMap                       (fixed 8d2f8a3)
\*   "ExpandSeqDropsCalibrationQubits" expand_defgate_sequences: cache = body only  (fixed 25ee1ee)
\*   "CloneDropsCalibrationQubits"     clone_without_body_instructions: empty cache (KNOWN FINDING 16)
\*   "ResolveDropsPlaceholders"        a seeded defect: the rebuild after resolution forgets unresolved placeholders
DeviationNames == {"StaleCacheOnReplace", "IntoExternLast", "HashOrderedFrames",
                   "ExpandSeqDropsCalibrationQubits", "CloneDropsCalibrationQubits", "ResolveDropsPlaceholders"}
ASSUME Deviations \subseteq DeviationNames

\* g: for a plain gate application (no parameters, no modifiers) Some([name, qubits]) -- the only instructions whose
\*    qubits resolve_placeholders can rewrite in the generated programs; None for everything else
Instr(id, k, key, text, qs) == [id |-> id, k |-> k, key |-> key, text |-> text, qs |-> qs, g |-> None]

\* qubits: fixed, variable, or a placeholder (identity semantics: QPh(n) is the n-th placeholder the history created)
QText(q) == CASE q.t = "fixed" -> ToString(q.n)
              [] q.t = "var"   -> q.s
              [] q.t = "ph"    -> "{ph" \o ToString(q.id) \o "}"
RECURSIVE QTexts(_)
QTexts(qs) == IF qs = <<>> THEN "" ELSE " " \o QText(Head(qs)) \o QTexts(Tail(qs))
\* a plain gate application: its identity is its text
GateOn(name, qubits) == LET text == name \o QTexts(qubits) IN
    [id |-> text, k |-> "Body", key |-> "-", text |-> text, qs |-> Range(qubits),
     g |-> Some([name |-> name, qubits |-> qubits])]

\* the order of Program::to_instructions
Tables == <<"Extern", "Declare", "DefFrame", "DefWaveform", "DefCal", "DefCalMeasure", "DefGate", "DefCircuit">>
TableSet == Range(Tables)
CalTables == {"DefCal", "DefCalMeasure"}     \* CalibrationSet (Vec); all others are IndexMaps
IsBody(i) == i.k = "Body"
IsDef(i)  == i.k # "Body"
IsCal(i)  == i.k \in CalTables
Regs == {"A", "B"}

EmptyProg == [tbl |-> [t \in TableSet |-> <<>>], body |-> <<>>, used |-> {},
              log |-> <<>>, excl |-> {}, opaque |-> FALSE]
OpaqueProg == [EmptyProg EXCEPT !.opaque = TRUE]

Ids(s)  == [n \in DOMAIN s |-> s[n].id]
Keys(s) == [n \in DOMAIN s |-> s[n].key]
QubitsOfSeq(s) == UNION {s[n].qs : n \in DOMAIN s}

----------------------------------------------------------------------------
\* Ordered tables: IndexMap::insert / CalibrationSet::replace, IndexMap::extend / CalibrationSet::extend

Pos(tb, key) == IF \E n \in DOMAIN tb : tb[n].key = key THEN CHOOSE n \in DOMAIN tb : tb[n].key = key ELSE 0
Upsert(tb, i) == LET p == Pos(tb, i.key) IN IF p = 0 THEN Append(tb, i) ELSE [tb EXCEPT ![p] = i]
RECURSIVE Merge(_, _)
Merge(tb, other) == IF other = <<>> THEN tb ELSE Merge(Upsert(tb, Head(other)), Tail(other))

----------------------------------------------------------------------------
\* Observations

RECURSIVE CatFrom(_, _)
CatFrom(ts, n) == IF n > Len(Tables) THEN <<>> ELSE ts[Tables[n]] \o CatFrom(ts, n + 1)

\* Program::to_instructions
ToInstructions(p) == CatFrom(p.tbl, 1) \o p.body
Listing(p) == ToInstructions(p)
\* Program::into_instructions
IntoInstructionsD(p, D) == IF "IntoExternLast" \in D THEN CatFrom(p.tbl, 2) \o p.tbl["Extern"] \o p.body
                           ELSE CatFrom(p.tbl, 1) \o p.body
IntoInstructions(p) == IntoInstructionsD(p, Deviations)
\* Quil::to_quil for Program: every instruction of to_instructions followed by a newline
RECURSIVE JoinLines(_)
JoinLines(s) == IF s = <<>> THEN "" ELSE Head(s).text \o "\n" \o JoinLines(Tail(s))
ToQuil(p) == JoinLines(ToInstructions(p))
\* Program::get_used_qubits
GetUsedQubits(p) == p.used
\* Program::len (calibrations are not counted by the code)
LenOf(p) == Len(p.body) + Len(p.tbl["Extern"]) + Len(p.tbl["Declare"]) + Len(p.tbl["DefFrame"])
            + Len(p.tbl["DefWaveform"]) + Len(p.tbl["DefGate"]) + Len(p.tbl["DefCircuit"])
\* #[derive(PartialEq)]: IndexMap equality ignores order, Vec / CalibrationSet equality does not
EqProg(a, b) == /\ \A t \in TableSet \ CalTables : Range(Ids(a.tbl[t])) = Range(Ids(b.tbl[t]))
                /\ \A t \in CalTables : Ids(a.tbl[t]) = Ids(b.tbl[t])
                /\ Ids(a.body) = Ids(b.body)
                /\ a.used = b.used

QubitsOfListing(p) == QubitsOfSeq(Listing(p))
DefQubits(p) == UNION {QubitsOfSeq(p.tbl[t]) : t \in TableSet}

\* a HashMap-backed FrameSet lists the frames in an order that depends on the map's hash seed h
Reverse(s) == [n \in DOMAIN s |-> s[Len(s) + 1 - n]]
ListingH(p, h) == IF "HashOrderedFrames" \in Deviations /\ h = 1
                  THEN CatFrom([p.tbl EXCEPT !["DefFrame"] = Reverse(@)], 1) \o p.body
                  ELSE Listing(p)
HashSeeds == IF "HashOrderedFrames" \in Deviations THEN {0, 1} ELSE {0}

----------------------------------------------------------------------------
\* The public operations as functions on program values (D = deviations in force)

Route(p, i) == IF IsBody(i) THEN [p EXCEPT !.body = Append(@, i)] ELSE [p EXCEPT !.tbl[i.k] = Upsert(@, i)]
Replaces(p, i) == IsDef(i) /\ Pos(p.tbl[i.k], i.key) # 0

\* Program::add_instruction: extend the cache, route; rebuild the cache if a calibration was replaced
AddI(p, i, D) ==
  LET q == Route(p, i)
      rebuild == IsCal(i) /\ Replaces(p, i) /\ "StaleCacheOnReplace" \notin D
  IN [q EXCEPT !.used = IF rebuild THEN QubitsOfListing(q) ELSE p.used \cup i.qs,
               !.log  = Append(@, i),
               !.excl = IF rebuild THEN {} ELSE @]

\* Program::add_instructions / from_instructions / From<Vec<Instruction>>
RECURSIVE FromSeq(_, _, _)
FromSeq(p, s, D) == IF s = <<>> THEN p ELSE FromSeq(AddI(p, Head(s), D), Tail(s), D)

\* "where C10 and C11 pull apart" (DESIGN §6 C11): both operands define the same calibration signature
\* and the left definition mentions a qubit the right one does not
PullApart(a, b) == \E t \in CalTables : \E n \in DOMAIN a.tbl[t] : \E m \in DOMAIN b.tbl[t] :
                      a.tbl[t][n].key = b.tbl[t][m].key /\ ~(a.tbl[t][n].qs \subseteq b.tbl[t][m].qs)

\* AddAssign / Add for Program: every table extend()ed, bodies appended, caches united
CatProg(a, b) == [tbl  |-> [t \in TableSet |-> Merge(a.tbl[t], b.tbl[t])],
                  body |-> a.body \o b.body,
                  used |-> a.used \cup b.used,
                  log  |-> a.log \o b.log,
                  excl |-> a.excl \cup b.excl \cup (IF PullApart(a, b) THEN {"pullapart"} ELSE {}),
                  opaque |-> FALSE]

\* Program::clone_without_body_instructions
CloneNoBody(a, D) == [a EXCEPT !.body = <<>>,
                               !.used = IF "CloneDropsCalibrationQubits" \in D THEN {} ELSE DefQubits(a),
                               !.log  = SelectSeq(a.log, IsDef),
                               !.excl = {}]

\* Program::resolve_placeholders{,_with_custom_resolvers}: every body instruction is rewritten in place by the
\* qubit resolver (a partial map from placeholders to fixed indices; an unmapped placeholder stays), definitions
\* (calibration bodies included) are not touched, then the cache is rebuilt from the listing.
\* A resolver is a sequence of [ph |-> id, n |-> index] records.
Mapped(m, q) == q.t = "ph" /\ \E k \in DOMAIN m : m[k].ph = q.id
SubstQ(m, q) == IF Mapped(m, q) THEN Fixed(m[CHOOSE k \in DOMAIN m : m[k].ph = q.id].n) ELSE q
ResolveI(i, m) == IF IsSome(i.g) /\ \E n \in DOMAIN i.g.some.qubits : Mapped(m, i.g.some.qubits[n])
                  THEN GateOn(i.g.some.name, [n \in DOMAIN i.g.some.qubits |-> SubstQ(m, i.g.some.qubits[n])])
                  ELSE i
ResolveP(p, m) ==
  LET newBody == [n \in DOMAIN p.body |-> ResolveI(p.body[n], m)]
      q == [p EXCEPT !.body = newBody] IN
  [q EXCEPT !.used = IF "ResolveDropsPlaceholders" \in Deviations
                     THEN {x \in QubitsOfListing(q) : x.t # "ph"} ELSE QubitsOfListing(q),
            !.log = SelectSeq(p.log, IsDef) \o newBody, !.excl = {}]
\* the default qubit resolver (default_qubit_resolver): the placeholders of the body in order of first appearance
\* get the smallest indices no body instruction uses as a fixed qubit
RECURSIVE PhsOf(_, _)
PhsOf(qs, seen) == IF qs = <<>> THEN <<>> ELSE
                   LET q == Head(qs) IN
                   IF q.t = "ph" /\ q.id \notin seen THEN <<q.id>> \o PhsOf(Tail(qs), seen \cup {q.id})
                   ELSE PhsOf(Tail(qs), seen)
BodyQubitSeq(body) == FlattenSeq([n \in DOMAIN body |-> IF IsSome(body[n].g) THEN body[n].g.some.qubits ELSE <<>>])
RECURSIVE FreeFrom(_, _, _)
FreeFrom(k, taken, n) == IF n = 0 THEN <<>> ELSE
                         IF k \in taken THEN FreeFrom(k + 1, taken, n) ELSE <<k>> \o FreeFrom(k + 1, taken, n - 1)
DefaultResolver(p) ==
  LET phs == PhsOf(BodyQubitSeq(p.body), {})
      taken == {q.n : q \in {x \in QubitsOfSeq(p.body) : x.t = "fixed"}}
      free == FreeFrom(0, taken, Len(phs))
  IN [k \in DOMAIN phs |-> [ph |-> phs[k], n |-> free[k]]]

\* Program::filter_instructions = from_instructions(to_instructions().filter(pred)); the predicates modelled
\* drop whole kinds
FilterP(a, drop, D) == FromSeq(EmptyProg, SelectSeq(Listing(a), LAMBDA i : i.k \notin drop), D)

\* Operations whose result listing is computed by other components (calibration expansion, gate-sequence
\* expansion, frame matching): expand_calibrations, simplify, wrap_in_loop(n >= 2), expand_defgate_sequences.
\* The listing is supplied (by the real code, in a recorded trace); the model says how the result *value* is
\* laid out from it (routing of every instruction) and what its cache must be.
CloneFamily == {"ExpandCalibrations", "ExpandCalibrationsWithSourceMap", "Simplify", "WrapInLoop"}
SeqFamily == {"ExpandDefGateSequences", "ExpandDefGateSequencesWithSourceMap"}
SuppliedNames == CloneFamily \cup SeqFamily \cup {"Dagger"}
RECURSIVE RouteAll(_, _)
RouteAll(p, s) == IF s = <<>> THEN p ELSE RouteAll(Route(p, Head(s)), Tail(s))
SuppliedP(name, listing, D) ==
  LET q == [RouteAll(EmptyProg, listing) EXCEPT !.log = listing]
      bodyOnly == \/ name \in CloneFamily /\ "CloneDropsCalibrationQubits" \in D
                  \/ name \in SeqFamily /\ "ExpandSeqDropsCalibrationQubits" \in D
  IN [q EXCEPT !.used = IF bodyOnly THEN QubitsOfSeq(q.body) ELSE QubitsOfListing(q)]

\* what every such operation keeps of its source (frame conditions; informational in trace validation)
IsSubSeq(s, t) == \E f \in [DOMAIN s -> DOMAIN t] :
                     /\ \A n \in DOMAIN s : t[f[n]] = s[n]
                     /\ \A n, m \in DOMAIN s : n < m => f[n] < f[m]
IsPrefix(s, t) == Len(s) <= Len(t) /\ SubSeq(t, 1, Len(s)) = s
SuppliedFrameOk(name, src, res) ==
  CASE name \in {"ExpandCalibrations", "ExpandCalibrationsWithSourceMap"} ->
         /\ \A t \in TableSet \ {"Declare"} : Ids(res.tbl[t]) = Ids(src.tbl[t])
         /\ IsPrefix(Keys(src.tbl["Declare"]), Keys(res.tbl["Declare"]))
    [] name = "Simplify" ->
         /\ \A t \in CalTables : res.tbl[t] = <<>>
         /\ \A t \in {"Extern", "DefFrame", "DefWaveform"} : IsSubSeq(Ids(res.tbl[t]), Ids(src.tbl[t]))
         /\ \A t \in {"DefGate", "DefCircuit"} : Ids(res.tbl[t]) = Ids(src.tbl[t])
    [] name = "WrapInLoop" ->
         /\ \A t \in TableSet \ {"Declare"} : Ids(res.tbl[t]) = Ids(src.tbl[t])
         /\ Len(res.body) = Len(src.body) + 4          \* MOVE, LABEL, body, SUB, JUMP-WHEN (DECLARE is hoisted)
         /\ Ids(SubSeq(res.body, 3, Len(src.body) + 2)) = Ids(src.body)
    [] name = "Dagger" ->          \* Program::new() + the daggered gates in reverse
         /\ \A t \in TableSet : res.tbl[t] = <<>> /\ src.tbl[t] = <<>>
         /\ Len(res.body) = Len(src.body)
    [] name \in SeqFamily ->
         /\ \A t \in TableSet \ {"DefGate"} : Ids(res.tbl[t]) = Ids(src.tbl[t])
         /\ IsSubSeq(Ids(res.tbl["DefGate"]), Ids(src.tbl["DefGate"]))
    [] OTHER -> TRUE

----------------------------------------------------------------------------
\* The register machine.  An operation is a record [ev, dst, ...]; Apply is its effect on the registers.

Apply(R, o, D) ==
  CASE o.ev = "New"              -> [R EXCEPT ![o.dst] = EmptyProg]
    [] o.ev = "Add"              -> [R EXCEPT ![o.dst] = AddI(R[o.dst], o.i, D)]
    [] o.ev = "AddMany"          -> [R EXCEPT ![o.dst] = FromSeq(R[o.dst], o.is, D)]
    [] o.ev = "FromInstructions" -> [R EXCEPT ![o.dst] = FromSeq(EmptyProg, o.is, D)]
    [] o.ev = "Concat"           -> [R EXCEPT ![o.dst] = CatProg(R[o.a], R[o.b])]
    [] o.ev = "AddAssign"        -> [R EXCEPT ![o.dst] = CatProg(R[o.dst], R[o.b])]
    [] o.ev = "Clone"            -> [R EXCEPT ![o.dst] = R[o.a]]
    [] o.ev = "CloneWithoutBody" -> [R EXCEPT ![o.dst] = CloneNoBody(R[o.a], D)]
    [] o.ev = "Resolve"          -> [R EXCEPT ![o.dst] = ResolveP(R[o.dst], o.map)]
    [] o.ev = "Filter"           -> [R EXCEPT ![o.dst] = FilterP(R[o.a], Range(o.drop), D)]
    [] o.ev = "Supplied"         -> [R EXCEPT ![o.dst] = SuppliedP(o.name, o.listing, D)]
    [] o.ev = "Opaque"           -> [R EXCEPT ![o.dst] = OpaqueProg]

VARIABLE regs
Step(o) == regs' = Apply(regs, o, Deviations)

Init == regs = [r \in Regs |-> EmptyProg]

\* one action per public call
New(r)                     == Step([ev |-> "New", dst |-> r])
AddInstruction(r, i)       == Step([ev |-> "Add", dst |-> r, i |-> i])
AddInstructions(r, s)      == Step([ev |-> "AddMany", dst |-> r, is |-> s])
FromInstructions(r, s)     == Step([ev |-> "FromInstructions", dst |-> r, is |-> s])   \* also From<Vec<_>> and FromStr
Concat(dst, a, b)          == Step([ev |-> "Concat", dst |-> dst, a |-> a, b |-> b])       \* dst = a.clone() + b.clone()
AddAssign(a, b)            == Step([ev |-> "AddAssign", dst |-> a, b |-> b])               \* a += b.clone()
Clone(dst, a)              == Step([ev |-> "Clone", dst |-> dst, a |-> a])
CloneWithoutBody(dst, a)   == Step([ev |-> "CloneWithoutBody", dst |-> dst, a |-> a])
\* resolve_placeholders(): the resolver is the default one (in a recorded trace: the choices the real code made)
ResolvePlaceholders(r, m)  == Step([ev |-> "Resolve", mode |-> "default", dst |-> r, map |-> m])
\* resolve_placeholders_with_custom_resolvers(default target resolver, m): any partial map
ResolvePlaceholdersWith(r, m) == Step([ev |-> "Resolve", mode |-> "custom", dst |-> r, map |-> m])
FilterInstructions(dst, a, drop) == Step([ev |-> "Filter", dst |-> dst, a |-> a, drop |-> drop])
SuppliedResult(name, dst, a, listing) ==
    Step([ev |-> "Supplied", name |-> name, dst |-> dst, a |-> a, listing |-> listing])
ExpandCalibrations(dst, a, listing)     == SuppliedResult("ExpandCalibrations", dst, a, listing)
Simplify(dst, a, listing)               == SuppliedResult("Simplify", dst, a, listing)
WrapInLoop(dst, a, listing)             == SuppliedResult("WrapInLoop", dst, a, listing)
ExpandDefGateSequences(dst, a, listing) == SuppliedResult("ExpandDefGateSequences", dst, a, listing)
ExpandCalibrationsWithSourceMap(dst, a, listing)     == SuppliedResult("ExpandCalibrationsWithSourceMap", dst, a, listing)
ExpandDefGateSequencesWithSourceMap(dst, a, listing) == SuppliedResult("ExpandDefGateSequencesWithSourceMap", dst, a, listing)
Dagger(dst, a, listing)                              == SuppliedResult("Dagger", dst, a, listing)
\* result not known to the generator (model-checking runs only): the register becomes opaque
Unknown(dst)               == Step([ev |-> "Opaque", dst |-> dst])

----------------------------------------------------------------------------
\* The properties, stated on a program value against its ghost log -- independent of Upsert/Merge.

Known(p) == ~p.opaque

\* --- C08: order within each kind is first-insertion order; a redefinition replaces in place
RECURSIVE FirstKeys(_, _, _)
FirstKeys(h, t, seen) ==
  IF h = <<>> THEN <<>> ELSE
  LET i == Head(h) IN
  IF i.k = t /\ i.key \notin seen THEN <<i.key>> \o FirstKeys(Tail(h), t, seen \cup {i.key})
  ELSE FirstKeys(Tail(h), t, seen)
FirstInsertionOrderOf(p) == \A t \in TableSet : Keys(p.tbl[t]) = FirstKeys(p.log, t, {})
NoDuplicateKeysOf(p) == \A t \in TableSet : \A n, m \in DOMAIN p.tbl[t] : p.tbl[t][n].key = p.tbl[t][m].key => n = m
\* each keyed definition holds its last value (C08 "replaces the earlier one", C09 "keeps only its last value")
Defined(h, t, key) == \E m \in DOMAIN h : h[m].k = t /\ h[m].key = key
LastOf(h, t, key) == h[Max({m \in DOMAIN h : h[m].k = t /\ h[m].key = key})]
IsLastOf(i, h, t) == Defined(h, t, i.key) /\ i.id = LastOf(h, t, i.key).id     \* total: FALSE for a key never defined
LastValueWinsOf(p) == \A t \in TableSet : \A n \in DOMAIN p.tbl[t] : IsLastOf(p.tbl[t][n], p.log, t)
\* the listing is the eight tables in the documented order, then the body; every entry sits in its own table
SegmentedOf(p) == /\ \A t \in TableSet : \A n \in DOMAIN p.tbl[t] : p.tbl[t][n].k = t
                  /\ \A n \in DOMAIN p.body : IsBody(p.body[n])
\* serialization is a function of the listing, whatever the hash seed
HashIndependentOf(p) == \A h \in HashSeeds : ListingH(p, h) = Listing(p)

\* the same laws on a bare listing L (e.g. a recorded real to_instructions()) against a log
TableOf(L, t) == SelectSeq(L, LAMBDA i : i.k = t)
ListingOrderLaw(L, log) == \A t \in TableSet : LET T == TableOf(L, t) IN
                              /\ Keys(T) = FirstKeys(log, t, {})
                              /\ \A n \in DOMAIN T : IsLastOf(T[n], log, t)
ListingBodyLaw(L, log) == Ids(SelectSeq(L, IsBody)) = Ids(SelectSeq(log, IsBody))
ListingLastValueLaw(L, log) == \A t \in TableSet : LET T == TableOf(L, t) IN
                              /\ Range(Keys(T)) = {log[m].key : m \in {x \in DOMAIN log : log[x].k = t}}
                              /\ Len(T) = Cardinality(Range(Keys(T)))
                              /\ \A n \in DOMAIN T : IsLastOf(T[n], log, t)
\* a program value laid out from a listing as it stands (no Upsert: duplicates stay visible)
ProgOfListing(L, used) == [tbl |-> [t \in TableSet |-> TableOf(L, t)], body |-> SelectSeq(L, IsBody),
                           used |-> used, log |-> L, excl |-> {}, opaque |-> FALSE]

\* --- C09
ViewsAgreeOf(p) == IntoInstructions(p) = ToInstructions(p)
BodyOrderOf(p)  == p.body = SelectSeq(p.log, IsBody)
RebuildOf(p) == LET q == FromSeq(EmptyProg, Listing(p), Deviations) IN
                /\ q.tbl = p.tbl /\ q.body = p.body
                /\ ToQuil(q) = ToQuil(p)
                /\ (p.excl = {} => EqProg(q, p))

\* --- C10
UsedExactOf(p) == p.excl = {} => p.used = QubitsOfListing(p)
EqByContentOf(a, b) == (Ids(Listing(a)) = Ids(Listing(b)) /\ a.excl = {} /\ b.excl = {}) => EqProg(a, b)
\* equality never holds between programs with different contents (order within IndexMap tables aside)
EqSoundOf(a, b) == EqProg(a, b) => Range(Ids(Listing(a))) = Range(Ids(Listing(b)))

\* --- C11: the concatenation law for operands a, b and result c
Lookup(tb, key) == tb[Pos(tb, key)]
\* body appended; every definition kept once; a key defined in both takes B's value      (C11)
ConcatKeyValueLawOf(a, b, c) ==
  /\ c.body = a.body \o b.body
  /\ \A t \in TableSet :
       LET ka == Keys(a.tbl[t])  kb == Keys(b.tbl[t])  kc == Keys(c.tbl[t]) IN
       /\ Range(kc) = Range(ka) \cup Range(kb)
       /\ Len(kc) = Cardinality(Range(kc))
       /\ \A n \in DOMAIN kc :
            c.tbl[t][n] = IF kc[n] \in Range(kb) THEN Lookup(b.tbl[t], kc[n]) ELSE Lookup(a.tbl[t], kc[n])
\* A's definitions keep their places, B's new ones follow in B's order     (C08 "including via concatenation")
ConcatOrderLawOf(a, b, c) ==
  \A t \in TableSet :
       LET ka == Keys(a.tbl[t])  kb == Keys(b.tbl[t])  kc == Keys(c.tbl[t]) IN
       /\ SelectSeq(kc, LAMBDA k : k \in Range(ka)) = ka
       /\ SelectSeq(kc, LAMBDA k : k \notin Range(ka)) = SelectSeq(kb, LAMBDA k : k \notin Range(ka))
ConcatContentLawOf(a, b, c) == ConcatKeyValueLawOf(a, b, c) /\ ConcatOrderLawOf(a, b, c)
ConcatUsedLawOf(a, b, c) == c.used = a.used \cup b.used
ConcatLawOf(a, b, c) == ConcatContentLawOf(a, b, c) /\ ConcatUsedLawOf(a, b, c)
SameContent(a, b) == /\ Ids(Listing(a)) = Ids(Listing(b)) /\ a.used = b.used /\ EqProg(a, b)
ConcatIdentityOf(a) == SameContent(CatProg(a, EmptyProg), a) /\ SameContent(CatProg(EmptyProg, a), a)

\* as state invariants over the registers
KnownRegs == {r \in Regs : Known(regs[r])}
FirstInsertionOrder == \A r \in KnownRegs : FirstInsertionOrderOf(regs[r])
NoDuplicateKeys     == \A r \in KnownRegs : NoDuplicateKeysOf(regs[r])
LastValueWins       == \A r \in KnownRegs : LastValueWinsOf(regs[r])
Segmented           == \A r \in KnownRegs : SegmentedOf(regs[r])
HashIndependent     == \A r \in KnownRegs : HashIndependentOf(regs[r])
ViewsAgree          == \A r \in KnownRegs : ViewsAgreeOf(regs[r])
BodyOrder           == \A r \in KnownRegs : BodyOrderOf(regs[r])
Rebuild             == \A r \in KnownRegs : RebuildOf(regs[r])
UsedExact           == \A r \in KnownRegs : UsedExactOf(regs[r])
EqByContent         == \A r, s \in KnownRegs : EqByContentOf(regs[r], regs[s])
EqSound             == \A r, s \in KnownRegs : EqSoundOf(regs[r], regs[s])
\* for every reachable pair of programs, in both orders (whether or not the history concatenates them)
ConcatLaw           == \A r, s \in KnownRegs : ConcatLawOf(regs[r], regs[s], CatProg(regs[r], regs[s]))
ConcatIdentity      == \A r \in KnownRegs : ConcatIdentityOf(regs[r])
\* in-place replacement as an action property: an add with an existing key changes that slot only
ReplaceInPlaceStep(p, q, i) ==
    Replaces(p, i) => /\ Keys(q.tbl[i.k]) = Keys(p.tbl[i.k])
                      /\ \A n \in DOMAIN p.tbl[i.k] : n # Pos(p.tbl[i.k], i.key) => q.tbl[i.k][n] = p.tbl[i.k][n]
                      /\ q.tbl[i.k][Pos(p.tbl[i.k], i.key)] = i
                      /\ \A t \in TableSet \ {i.k} : q.tbl[t] = p.tbl[t]
=============================================================================
