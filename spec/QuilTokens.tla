----------------------------- MODULE QuilTokens -----------------------------
(***************************************************************************)
(* Token classes of the quil-rs lexer (parser/token.rs, parser/lexer).     *)
(*                                                                         *)
(* A token is a record [c, v, k]:                                          *)
(*   c  class   "cmd" "nonblocking" "mod" "dtype" "kw" "id" "int" "float"  *)
(*              "op" "lp" "rp" "lb" "rb" "comma" "colon" "bang" "semi"     *)
(*              "str" "target" "var" "nl" "indent" "comment" ("eof" only   *)
(*              as the value read beyond the end)                          *)
(*   v  lexeme  (command / keyword / operator spelling, identifier, ...)   *)
(*   k  the part of the lexeme's *value* the parser looks at:              *)
(*        int : "s" value < 2^63 | "m" value = 2^63 | "b" value > 2^63     *)
(*        id  : "fn" lower-cased name is cis/cos/exp/sin/sqrt | "i" the    *)
(*              identifier is exactly `i` | "" any other identifier        *)
(*        ""  for every other class                                        *)
(* All tokens have the same three fields so that TLC can compare them.     *)
(* harness/src/props/c01.rs (`tokenize`, `render`) is the other side.      *)
(***************************************************************************)
EXTENDS Naturals, Sequences, FiniteSets

T(c, v)     == [c |-> c, v |-> v, k |-> ""]
TK(c, v, k) == [c |-> c, v |-> v, k |-> k]
EOFT == T("eof", "")
At(ts, p) == IF p >= 1 /\ p <= Len(ts) THEN ts[p] ELSE EOFT
C(ts, p) == At(ts, p).c

Commands == {"ADD", "AND", "ASHR", "CALL", "CAPTURE", "CONVERT", "DECLARE", "DEFCAL", "DEFCIRCUIT", "DEFFRAME",
             "DEFGATE", "DEFWAVEFORM", "DELAY", "DIV", "EQ", "EXCHANGE", "FENCE", "GE", "GT", "HALT", "INCLUDE", "IOR",
             "JUMP", "JUMP-UNLESS", "JUMP-WHEN", "LABEL", "LE", "LOAD", "LT", "MEASURE", "MOVE", "MUL", "NEG", "NOP",
             "NOT", "PRAGMA", "PULSE", "RAW-CAPTURE", "RESET", "SET-FREQUENCY", "SET-PHASE", "SET-SCALE",
             "SHIFT-FREQUENCY", "SHIFT-PHASE", "SHL", "SHR", "STORE", "SUB", "SWAP-PHASES", "WAIT", "XOR"}
Keywords == {"AS", "MATRIX", "mut", "OFFSET", "PAULI-SUM", "PERMUTATION", "SEQUENCE", "SHARING"}
Modifiers == {"CONTROLLED", "DAGGER", "FORKED"}
DataTypes == {"BIT", "OCTET", "REAL", "INTEGER"}
Operators == {"^", "-", "+", "/", "*"}

Cmd(x) == T("cmd", x)
Kw(x)  == T("kw", x)
Op(x)  == T("op", x)
Id(x)  == T("id", x)
Minus  == Op("-")
Slash  == Op("/")
NonBlocking == T("nonblocking", "NONBLOCKING")
LP == T("lp", "(")   RP == T("rp", ")")   LB == T("lb", "[")   RB == T("rb", "]")
Comma == T("comma", ",")  Colon == T("colon", ":")  Bang == T("bang", "!")  Semi == T("semi", ";")
NL == T("nl", "\n")  Indent == T("indent", "    ")
Str(x) == T("str", x)   Target(x) == T("target", x)   Var(x) == T("var", x)
Int(x) == TK("int", x, "s")
Float(x) == T("float", x)
IntMax63 == TK("int", "9223372036854775807", "s")
IntTwo63 == TK("int", "9223372036854775808", "m")
IntMax64 == TK("int", "18446744073709551615", "b")
FnId(x) == TK("id", x, "fn")
IdI == TK("id", "i", "i")

\* well-formedness of a token (used by the trace spec on recorded token streams)
ClassOK(t) ==
  /\ t.c \in {"cmd", "nonblocking", "mod", "dtype", "kw", "id", "int", "float", "op", "lp", "rp", "lb", "rb", "comma",
              "colon", "bang", "semi", "str", "target", "var", "nl", "indent", "comment"}
  /\ (t.c = "cmd" => t.v \in Commands) /\ (t.c = "kw" => t.v \in Keywords) /\ (t.c = "mod" => t.v \in Modifiers)
  /\ (t.c = "dtype" => t.v \in DataTypes) /\ (t.c = "op" => t.v \in Operators)
  /\ (t.c = "int" => t.k \in {"s", "m", "b"}) /\ (t.c = "id" => t.k \in {"", "fn", "i"})
  /\ (t.c \notin {"int", "id"} => t.k = "")
=============================================================================
